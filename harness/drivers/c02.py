"""C02 -- periodic separation.  Spec: spec/Dvect.tla (+ MC_Dvect, Dvect_Trace).

S->C : every state of the exhaustive TLC run (cell x pbc x point pair) is an implementation case with the
       TLC-computed nearest-of-27 and true-nearest values.
C->S : seeded random dyadic cells / points / shapes are pushed through atomman.dvect, dmag, System.dvect,
       System.dmag and displacement; every result row is a trace record that TLC accepts or rejects
       (Dvect!Verdict: lattice image along periodic directions only, nearest of 27, |dvect| = dmag,
       true nearest image when the antecedent holds, plain difference, broadcasting rule).
"""
import json
import os

import numpy as np

from .. import tlc
from ..proj import to_int, excname


def _box(am, v, o, q=1):
    return am.Box(vects=np.array(v, dtype=float) / q, origin=np.array(o, dtype=float) / q)


def _rec_rows(ev, v, o, pbc, P0, P1, out, q, chk, tag, kind):
    """one trace record per row"""
    recs = []
    if kind == 'dm':
        o2, ok = to_int(np.asarray(out, dtype=float) ** 2, q * q, tol=1e-9)
    else:
        o2, ok = to_int(out, q)
    okrow = ok
    P0 = np.asarray(P0).reshape(-1, 3)
    P1 = np.asarray(P1).reshape(-1, 3)
    n = max(len(P0), len(P1))
    out = np.asarray(o2).reshape((n, 3) if kind != 'dm' else (n,))
    for i in range(n):
        r = {'ev': ev, 'v': v, 'o': o, 'pbc': [bool(x) for x in pbc],
             'p0': [int(x) for x in P0[i if len(P0) > 1 else 0]],
             'p1': [int(x) for x in P1[i if len(P1) > 1 else 0]],
             'ongrid': okrow, 'chk': bool(chk), 'tag': tag}
        if kind == 'dm':
            r['dm2'] = int(out[i])
        else:
            r['dv'] = [int(x) for x in out[i]]
        recs.append(r)
    return recs


def run(ctx):
    import atomman as am
    quick = ctx.tier == 'quick'
    ctx.rule = ('S->C: all (cell, pbc, point pair) states of the TLC model; C->S: seeded random dyadic cells, '
                'points inside/outside/on faces, all 8 pbc, all broadcast shapes and entry points; '
                'non-trivial = the nearest-of-27 differs from the direct separation (a lattice shift was needed) '
                'or a refusal/broadcast record; distinct by full input')
    ctx.trusted = ['TLC', 'float64 exactness on the dyadic grid', 'harness/proj.to_int']

    # ---- 1. model level + case emission ------------------------------------------------------------
    r = tlc.must_pass(tlc.run('MC_Dvect', 'Dvect_exh_quick.cfg', workers=16, timeout=1800), 'Dvect_exh_quick')
    ctx.add_tlc(r)
    cases = list(r.cases)
    r2 = tlc.must_pass(tlc.run('MC_Dvect', 'Dvect_exh_outside.cfg', workers=16, timeout=3000), 'Dvect_exh_outside')
    ctx.add_tlc(r2)
    cases += r2.cases
    ante_true = sum(1 for c in cases if c['ante'])
    differ = sum(1 for c in cases if c['tm'] >= 0 and c['m27'] != c['tm'])
    ctx.extra['theorem_antecedent_true'] = ante_true
    ctx.extra['states_where_27_search_is_not_true_nearest'] = differ
    if not quick:
        r3 = tlc.must_pass(tlc.run('MC_Dvect', 'Dvect_exh_thorough.cfg', workers=16, timeout=6000, heap='12g'),
                           'Dvect_exh_thorough')
        ctx.add_tlc(r3)
        ctx.exhaustive = True
    # anti-vacuity: the same model with a 2-candidate search in x must violate the theorem
    rn = tlc.run('MC_DvectNeg', 'Dvect_neg.cfg', workers=16, timeout=1800)
    tlc.must_fail(rn, 'Dvect_neg', 'NearestTheoremNeg')
    ctx.extra['negative_model_rejected'] = True

    # ---- 2. S->C replay ----------------------------------------------------------------------------
    recs = []
    groups = {}
    for c in cases:
        groups.setdefault(json.dumps([c['v'], c['o'], c['pbc']]), []).append(c)
    for key, cs in groups.items():
        v, o, pbc = json.loads(key)
        box = _box(am, v, o)
        P0 = np.array([c['p0'] for c in cs], dtype=float)
        P1 = np.array([c['p1'] for c in cs], dtype=float)
        try:
            dv = am.dvect(P0, P1, box, pbc)
            dm = am.dmag(P0, P1, box, pbc)
        except Exception as e:
            ctx.violation('dvect/dmag raised %s on a valid many-to-many call' % excname(e), repr(e),
                          {'v': v, 'o': o, 'pbc': pbc})
            continue
        n2 = np.rint((dv ** 2).sum(axis=1)).astype(int)
        m2 = np.rint(dm ** 2).astype(int)
        for i, c in enumerate(cs):
            ctx.count()
            if c['m27'] != sum((a - b) ** 2 for a, b in zip(c['p1'], c['p0'])):
                ctx.nontriv(('s2c', key, tuple(c['p0']), tuple(c['p1'])))
            if n2[i] != c['m27']:
                ctx.violation('dvect longer/shorter than the nearest of the 27 candidates (S->C)',
                              'got |d|^2=%d expected %d' % (n2[i], c['m27']), c)
            if m2[i] != c['m27']:
                ctx.violation('dmag differs from the nearest of the 27 candidates (S->C)',
                              'got %d expected %d' % (m2[i], c['m27']), c)
            if c['ante'] and c['tm'] >= 0 and n2[i] != c['tm']:
                ctx.violation('dvect is not the true nearest image although the antecedent holds (S->C)',
                              'got %d expected %d' % (n2[i], c['tm']), c)
        ctx.traces += 1
        recs += _rec_rows('dvect', v, o, pbc, P0.astype(int), P1.astype(int), dv, 1, False, 's2c', 'dv')
    ctx.sample({'kind': 'S->C case', **cases[len(cases) // 2]})

    # ---- 3. C->S: random grid inputs through every entry point --------------------------------------
    rng = np.random.default_rng(ctx.seed)
    ncell = 60 if quick else 500
    npair = 60 if quick else 250
    Q = 4
    for ci in range(ncell):
        # the same geometry in a much smaller / larger length unit (power of two: every float operation scales exactly)
        Qs = Q / [1.0, 2.0 ** -32, 2.0 ** 24][int(rng.integers(0, 3))]
        small = bool(rng.random() < .5)          # (options drawn independently; no modular coupling) # small cells: the true-nearest clause is checked as well
        if small:
            L = rng.integers(2, 5, 3) * 4
            tilt = [int(rng.integers(-L[0] // 4, L[0] // 4 + 1)) * 2 if rng.random() < .7 else 0 for _ in range(3)]
        else:
            L = rng.integers(4, 40, 3)
            tilt = [int(rng.integers(-L[0], L[0] + 1)) if rng.random() < .7 else 0 for _ in range(3)]
            thin = bool(rng.random() < .6)
            if thin:      # thin cell whose tilt nearly equals lx: b - a is shorter than a and b
                L[1] = int(rng.integers(2, 6))
                tilt[0] = int(L[0] - rng.integers(0, 3))
        v = [[int(L[0]), 0, 0], [tilt[0], int(L[1]), 0], [tilt[1], tilt[2], int(L[2])]]
        permuted = bool(rng.random() < .3)
        if permuted:        # not LAMMPS oriented: signed permutation of the Cartesian axes
            perm = rng.permutation(3)
            sg = rng.choice([-1, 1], 3)
            v = [[int(sg[j] * row[perm[j]]) for j in range(3)] for row in v]
        o = [int(x) for x in rng.integers(-20, 21, 3)] if rng.random() < .6 else [0, 0, 0]
        pbc = [bool(x) for x in rng.integers(0, 2, 3)]
        if not small and thin and rng.random() < .8:
            pbc = [True, True, bool(rng.integers(0, 2))]      # the short combination b - a only matters when a and b are both periodic
            if permuted:
                pbc = [True, True, True]
        box = _box(am, v, o, Qs)
        V = np.array(v)

        # integer numerators: relative quarters only when cell entries are multiples of 4
        def ptsrel(n, lo, hi):
            if small:
                rel = rng.integers(lo * 4, hi * 4 + 1, (n, 3))
                return np.array(o) + (rel @ V) // 4
            rel = rng.integers(lo, hi + 1, (n, 3))
            jit = rng.integers(-3, 4, (n, 3))
            return np.array(o) + rel @ V + jit * (rng.random((n, 1)) < .7)

        spread = (0, 1) if rng.random() < .6 else (-2, 3)
        P0 = ptsrel(npair, *spread)
        P1 = ptsrel(npair, *spread)
        # close pairs in every cell (a third of the rows): the direct separation is short, a lattice image may still be shorter in a
        # strongly tilted cell
        ncl = npair // 3
        P1[:ncl] = P0[:ncl] + rng.integers(-6, 7, (ncl, 3))
        f0, f1 = P0 / Qs, P1 / Qs
        tag = 'cell%d' % ci
        try:
            g0, g1 = f0.copy(), f1.copy()
            dv = am.dvect(f0, f1, box, pbc)
            dm = am.dmag(f0, f1, box, pbc)
            if not (np.array_equal(f0, g0) and np.array_equal(f1, g1)):
                ctx.violation('dvect / dmag modified the position arrays passed to them', tag)
                f0, f1 = g0, g1
            recs += _rec_rows('dvect', v, o, pbc, P0, P1, dv, Qs, small and spread == (0, 1), tag, 'dv')
            recs += _rec_rows('dmag', v, o, pbc, P0, P1, dm, Qs, False, tag, 'dm')
            # |dvect| = dmag row by row is implied: both are compared with the same Min27
            # one-to-many, many-to-one, list input, 1-D input
            dv1 = am.dvect(f0[0], f1, box, pbc)
            recs += _rec_rows('dvect', v, o, pbc, P0[:1], P1, dv1, Qs, False, tag + ':1toN', 'dv')
            dvn = am.dvect(f0.tolist(), f1[3].tolist(), box, tuple(pbc))
            recs += _rec_rows('dvect', v, o, pbc, P0, P1[3:4], dvn, Qs, False, tag + ':Nto1list', 'dv')
            dm1 = am.dmag(f0[2], f1, box, pbc)
            recs += _rec_rows('dmag', v, o, pbc, P0[2:3], P1, dm1, Qs, False, tag + ':1toN', 'dm')
            dmn = am.dmag(f0.tolist(), f1[5].tolist(), box, pbc)
            recs += _rec_rows('dmag', v, o, pbc, P0, P1[5:6], dmn, Qs, False, tag + ':Nto1list', 'dm')
            for (a, b) in ((1, 7), (7, 1), (7, 7), (1, 1)):
                outv = am.dvect(f0[:a], f1[:b], box, pbc)
                recs.append({'ev': 'shape', 'n0': a, 'n1': b, 'nout': int(len(outv)), 'refused': False, 'tag': tag})
                outm = am.dmag(f0[:a], f1[:b], box, pbc)
                recs.append({'ev': 'shape', 'n0': a, 'n1': b, 'nout': int(len(outm)), 'refused': False, 'tag': tag})
        except Exception as e:
            ctx.violation('dvect/dmag raised %s on valid input' % excname(e), repr(e), {'v': v, 'o': o, 'pbc': pbc})
            continue
        for fn, nm in ((am.dvect, 'dvect'), (am.dmag, 'dmag')):
            for (a, b) in ((3, 5), (2, 9)):
                try:
                    out = fn(f0[:a], f1[:b], box, pbc)
                    recs.append({'ev': 'shape', 'n0': a, 'n1': b, 'nout': int(len(out)), 'refused': False, 'tag': tag + nm})
                except ValueError:
                    recs.append({'ev': 'shape', 'n0': a, 'n1': b, 'nout': 0, 'refused': True, 'tag': tag + nm})
                except Exception as e:
                    ctx.violation('%s raised %s (not ValueError) on incompatible lengths' % (nm, excname(e)), repr(e))
        # System entry points: index and position dispatch (positions are passed as floats with a
        # fractional part or as ndarray so that they are not mistaken for indices: documented behaviour)
        try:
            system = am.System(atoms=am.Atoms(pos=f0.copy()), box=box, pbc=pbc)
            i, j = int(rng.integers(0, npair)), int(rng.integers(0, npair))
            d = system.dvect(i, j)
            recs += _rec_rows('dvect', v, o, pbc, P0[i:i + 1], P0[j:j + 1], d, Qs, False, tag + ':sys(i,j)', 'dv')
            d = system.dvect(-1, slice(0, 6))
            recs += _rec_rows('dvect', v, o, pbc, P0[-1:], P0[0:6], d, Qs, False, tag + ':sys(-1,slice)', 'dv')
            d = system.dvect([0, 2, 4], f1[:3])
            recs += _rec_rows('dvect', v, o, pbc, P0[[0, 2, 4]], P1[:3], d, Qs, False, tag + ':sys(list,pos)', 'dv')
            d = system.dmag(f1[4], j)
            recs += _rec_rows('dmag', v, o, pbc, P1[4:5], P0[j:j + 1], [d], Qs, False, tag + ':sysdmag(pos,j)', 'dm')
            d = system.dmag(slice(None), f1)
            recs += _rec_rows('dmag', v, o, pbc, P0, P1, d, Qs, False, tag + ':sysdmag(all,pos)', 'dm')
            # displacement between two systems under each reference
            v2 = [[int(2 * x) for x in row] for row in v] if rng.random() < .5 else v
            pbc2 = [not pbc[0], pbc[1], pbc[2]]
            sys1 = am.System(atoms=am.Atoms(pos=f1.copy()), box=_box(am, v2, o, Qs), pbc=pbc2)
            d = am.displacement(system, sys1)
            recs += _rec_rows('dvect', v2, o, pbc2, P0, P1, d, Qs, False, tag + ':disp(final)', 'dv')
            d = am.displacement(system, sys1, box_reference='initial')
            recs += _rec_rows('dvect', v, o, pbc, P0, P1, d, Qs, False, tag + ':disp(initial)', 'dv')
            d = am.displacement(system, sys1, box_reference=None)
            recs += _rec_rows('plain', v, o, pbc, P0, P1, d, Qs, False, tag + ':disp(None)', 'dv')
        except Exception as e:
            ctx.violation('System.dvect/dmag/displacement raised %s on valid input' % excname(e), repr(e),
                          {'v': v, 'o': o, 'pbc': pbc})
    # ---- 3b. wide dynamic range: cells hundreds of units across, pairs whose nearest image lies 1e-6..1e-3 units away across a
    #          periodic face.  The integers involved (cell 2^30, squares 2^60) are outside TLC's 32-bit range, so the same three laws the
    #          trace module states (lattice image, not longer than any of the 27 candidates, |dvect| = dmag) are evaluated here with
    #          Python integers.  All float inputs are dyadic and every subtraction in a faithful implementation is exact.
    import itertools
    Qb = 2 ** 20
    for wi in range(16 if quick else 200):
        L = [int(x) for x in rng.integers(100, 800, 3)]
        tl = [int(rng.integers(-L[0] // 2, L[0] // 2 + 1)) if rng.random() < .6 else 0 for _ in range(3)]
        vw = [[L[0], 0, 0], [tl[0], L[1], 0], [tl[1], tl[2], L[2]]]
        if rng.random() < .3:
            perm = rng.permutation(3)
            sg = rng.choice([-1, 1], 3)
            vw = [[int(sg[j] * row[perm[j]]) for j in range(3)] for row in vw]
        ow = [int(x) for x in rng.integers(-50, 51, 3)] if rng.random() < .5 else [0, 0, 0]
        pw = [bool(x) for x in rng.integers(0, 2, 3)]
        pw[int(rng.integers(0, 3))] = True
        Vw = np.array(vw, dtype=object) * Qb
        nw = 40
        rel = rng.integers(0, Qb + 1, (nw, 3))
        P0w = np.array([[int(ow[k]) * Qb + sum(int(rel[i, j]) * int(vw[j][k]) for j in range(3)) for k in range(3)] for i in range(nw)], dtype=object)
        sh = np.array([[int(rng.integers(-1, 2)) if pw[j] else 0 for j in range(3)] for _ in range(nw)], dtype=object)
        dl = np.array([[int(x) for x in rng.integers(-2 ** int(rng.integers(0, 11)), 2 ** int(rng.integers(0, 11)) + 1, 3)] for _ in range(nw)], dtype=object)
        P1w = P0w + sh.dot(Vw) + dl
        f0 = np.array(P0w, dtype=float) / Qb
        f1 = np.array(P1w, dtype=float) / Qb
        bw = am.Box(vects=np.array(vw, dtype=float), origin=np.array(ow, dtype=float))
        ctx.count(nw)
        try:
            dvw = np.asarray(am.dvect(f0, f1, bw, pw))
            dmw = np.asarray(am.dmag(f0, f1, bw, pw))
            sysw = am.System(atoms=am.Atoms(pos=np.vstack([f0, f1])), box=bw, pbc=pw)
            dms = np.asarray(sysw.dmag(list(range(nw)), list(range(nw, 2 * nw))))
        except Exception as e:
            ctx.violation('dvect/dmag raised %s on valid input' % excname(e), repr(e)[:200], {'v': vw, 'o': ow, 'pbc': pw})
            continue
        shifts = [c for c in itertools.product((-1, 0, 1), repeat=3) if all(pw[j] or c[j] == 0 for j in range(3))]
        for i in range(nw):
            d0 = P1w[i] - P0w[i]
            m27 = min(sum(int(x) ** 2 for x in (d0 + np.array(c, dtype=object).dot(Vw))) for c in shifts)
            want = (m27 ** 0.5) / Qb
            got = float(np.linalg.norm(dvw[i]))
            ctx.nontriv(('wide', wi, i))
            where = {'v': vw, 'o': ow, 'pbc': pw, 'p0': f0[i].tolist(), 'p1': f1[i].tolist()}
            if abs(got - want) > 1e-9 * want + 1e-300:
                ctx.violation('dvect: not the nearest of the 27 candidates [cell hundreds of units across, separation below 1e-3]', 'got %r expected %r' % (got, want), where)
            if abs(float(dmw[i]) - want) > 1e-9 * want + 1e-300 or abs(float(dms[i]) - want) > 1e-9 * want + 1e-300:
                ctx.violation('dmag differs from the length of dvect [cell hundreds of units across, separation below 1e-3]',
                              'dmag %r System.dmag %r |dvect| %r expected %r' % (float(dmw[i]), float(dms[i]), got, want), where)
        ctx.traces += 1

    # ---- 4. TLC decides every record ------------------------------------------------------------------
    for r_ in recs:
        ctx.count()
        if r_['ev'] in ('dvect', 'dmag') and r_.get('ongrid'):
            direct = sum((a - b) ** 2 for a, b in zip(r_['p1'], r_['p0']))
            got = r_.get('dm2', None)
            if got is None:
                got = sum(x * x for x in r_['dv'])
            if got != direct:
                ctx.nontriv((r_['ev'], json.dumps(r_['v']), tuple(r_['o']), tuple(r_['pbc']), tuple(r_['p0']), tuple(r_['p1'])))
        elif r_['ev'] == 'shape':
            ctx.nontriv(('shape', r_['n0'], r_['n1'], r_['refused']))
    ok, bads, st, tr = tlc.validate_traces('Dvect_Trace', 'Dvect_trace.cfg', recs, ctx.work)
    ctx.states += st
    ctx.transitions += tr
    ctx.traces += ok
    ctx.extra['trace_records'] = len(recs)
    ctx.extra['true_nearest_checked_records'] = sum(1 for r_ in recs if r_.get('chk'))
    for b in bads:
        rec = b['record']
        ctx.violation('%s: %s [%s]' % (rec['ev'], b['clause'], rec.get('tag', '').split(':', 1)[-1] if ':' in rec.get('tag', '') else 'direct'),
                      json.dumps(rec), {'file': b['file'], 'line': b['l']})
    ctx.sample({'kind': 'C->S record', **recs[len(recs) // 2]})
    ctx.sample({'kind': 'C->S record', **recs[-1]})
    from .. import umbrella
    umbrella.run(ctx, am, 'C02')      # cross-module histories of spec/Atomman.tla (only the steps this property owns are reported here)
