"""C01 -- Box parameter sets, coordinate maps, cached reciprocal vectors.  Spec: spec/Box.tla.

S->C : TLC enumerates every history (exhaustive to a depth bound, then -simulate) of set_vects / set_vectors /
       set_lengths / set_hi_los / set_abc / set_origin / reciprocal_vects / cartesian->relative / relative->cartesian /
       inside / LAMMPS getters; each history is replayed on ONE real Box object and the projected state / results are
       compared with the TLC expectation after every step (the cached dual makes this a history property).
C->S : random dyadic cells (LAMMPS-oriented, rotated by signed permutations, strongly tilted, origin # 0), points of any
       leading shape, list and ndarray input -> records decided by Box!VerdictBox.
"""
import json

import numpy as np

from .. import tlc
from ..proj import to_int, excname

Q = 4


def _abc_from_cell(v):
    """a,b,c,alpha,beta,gamma of an integer cell (inverse of what set_abc does with cos/sqrt)"""
    V = np.array(v, dtype=float) / Q
    a, b, c = (np.sqrt((V[i] ** 2).sum()) for i in range(3))
    al = np.degrees(np.arccos(V[1].dot(V[2]) / (b * c)))
    be = np.degrees(np.arccos(V[0].dot(V[2]) / (a * c)))
    ga = np.degrees(np.arccos(V[0].dot(V[1]) / (a * b)))
    return a, b, c, al, be, ga


def _proj_state(box, tol=2e-9):
    V = box.vects * Q
    m = np.abs(V).max()
    vi = np.rint(V)
    oi = np.rint(box.origin * Q)
    ok = np.all(np.abs(V - vi) <= tol * m) and np.all(np.abs(box.origin * Q - oi) <= tol * max(m, 1))
    return {'v': vi.astype(int).tolist(), 'o': oi.astype(int).tolist()}, bool(ok)


def _replay_history(am, h, ctx):
    box = am.Box()
    for k, st in enumerate(h):
        act, a, exp = st['act'], st['args'], st['expect']
        where = 'step %d (%s) of history %s' % (k, act, '>'.join(s['act'] for s in h))
        try:
            if act in ('set_vects', 'set_vectors', 'set_lengths', 'set_hi_los', 'set_abc'):
                V = np.array(a['v'], dtype=float) / Q
                o = np.array(a['o'], dtype=float) / Q
                if act == 'set_vects':
                    box.vects = V
                    box.origin = o
                elif act == 'set_vectors':
                    box.set_vectors(avect=V[0].tolist(), bvect=V[1], cvect=tuple(V[2]), origin=o)
                elif act == 'set_lengths':
                    box.set_lengths(lx=V[0, 0], ly=V[1, 1], lz=V[2, 2], xy=V[1, 0], xz=V[2, 0], yz=V[2, 1], origin=o)
                elif act == 'set_hi_los':
                    box.set_hi_los(xlo=o[0], xhi=o[0] + V[0, 0], ylo=o[1], yhi=o[1] + V[1, 1], zlo=o[2], zhi=o[2] + V[2, 2],
                                   xy=V[1, 0], xz=V[2, 0], yz=V[2, 1])
                else:
                    aa, bb, cc, al, be, ga = _abc_from_cell(a['v'])
                    box.set_abc(a=aa, b=bb, c=cc, alpha=al, beta=be, gamma=ga, origin=o)
            elif act == 'set_origin':
                box.origin = np.array(a['o'], dtype=float) / Q
            elif act == 'recip':
                got = box.reciprocal_vects * exp['det'] / Q          # recip = Q * RecipNum/Det  (cell = ints/Q)
                gi, ok = to_int(got, 1, tol=1e-7)
                if not ok or gi != exp['num']:
                    return 'reciprocal vectors are not dual to the current cell vectors', where + ' got %s exp %s' % (got.tolist(), exp['num'])
            elif act == 'c2r':
                got = box.position_cartesian_to_relative(np.array(a['p'], dtype=float) / Q) * exp['det']
                gi, ok = to_int(got, 1, tol=1e-7)
                if not ok or gi != exp['num']:
                    return 'cartesian->relative disagrees with the current cell', where + ' got %s exp %s' % (got.tolist(), exp['num'])
            elif act == 'r2c':
                got = box.position_relative_to_cartesian(np.array(a['s'], dtype=float) / a['g']) * Q
                gi, ok = to_int(got, 1, tol=1e-7)
                if not ok or gi != exp['p']:
                    return 'relative->cartesian disagrees with the current cell', where + ' got %s exp %s' % (got.tolist(), exp['p'])
            elif act == 'inside':
                got = bool(box.inside(np.array(a['p'], dtype=float) / Q, inclusive=a['incl']))
                if exp['decisive'] and got != exp['inside']:
                    return 'inside(%s) wrong' % ('inclusive' if a['incl'] else 'exclusive'), where + ' p=%s' % a['p']
            elif act == 'read_lammps':
                try:
                    got = {k_: int(round(getattr(box, k_) * Q)) for k_ in ('lx', 'ly', 'lz', 'xy', 'xz', 'yz', 'xlo', 'ylo', 'zlo', 'xhi', 'yhi', 'zhi')}
                    if 'refused' in exp:
                        return 'LAMMPS parameters of a non-LAMMPS-oriented cell were not refused', where
                    if got != exp:
                        return 'LAMMPS parameters are not those of the cell', where + ' got %s exp %s' % (got, exp)
                except AssertionError:
                    if 'refused' not in exp:
                        return 'LAMMPS parameters refused for a LAMMPS-oriented cell', where
        except Exception as e:
            return '%s raised %s' % (act, excname(e)), where + ' ' + repr(e)
        if 'v' in exp:
            got, ok = _proj_state(box)
            if not ok or got != {'v': exp['v'], 'o': exp['o']}:
                return 'cell after %s is not the cell that was given' % act, where + ' got %s exp %s' % (got, exp)
    return None


def run(ctx):
    import atomman as am
    quick = ctx.tier == 'quick'
    ctx.rule = ('S->C: all call histories of the Box model up to the depth bound + simulated longer ones; C->S: random '
                'dyadic cells and point arrays; non-trivial = history containing a cell change after a cached-dual use, '
                'or a record whose cell is tilted / rotated / has origin # 0 or whose points lie on faces; distinct by full input')
    ctx.trusted = ['TLC', 'float64 exactness on the dyadic grid', 'harness/proj.to_int', 'sqrt/arccos used by the driver to derive a,b,c,angles']
    cfg = 'Box_hist_quick.cfg' if quick else 'Box_hist_thorough.cfg'
    r = tlc.must_pass(tlc.run('MC_Box', cfg, workers=16, timeout=3000, heap='8g'), cfg)
    ctx.add_tlc(r)
    hists = list(r.cases)
    ctx.exhaustive = True
    rs = tlc.must_pass(tlc.run('MC_Box', 'Box_sim.cfg', workers=1, timeout=3000, simulate=150 if quick else 4000,
                               depth=8, seed=ctx.seed % 100000), 'Box_sim')
    ctx.add_tlc(rs)
    hists += [h for h in rs.cases if len(h) == 7]
    rn = tlc.run('MC_Box', 'Box_neg.cfg', workers=16, timeout=1800)
    tlc.must_fail(rn, 'Box_neg', 'CacheCoherent')
    ctx.extra['negative_model_rejected'] = True
    for h in hists:
        ctx.count()
        acts = [s['act'] for s in h]
        used = False
        for s in acts:
            if s in ('recip', 'c2r'):
                used = True
            elif used and s.startswith('set_') and s != 'set_origin':
                ctx.nontriv(json.dumps(h))
                break
        bad = _replay_history(am, h, ctx)
        if bad:
            ctx.violation(bad[0] + ' (S->C history)', bad[1], h)
        ctx.traces += 1
    ctx.sample({'kind': 'S->C history', 'steps': hists[len(hists) // 3]})

    # ---- C->S ---------------------------------------------------------------------------------------
    rng = np.random.default_rng(ctx.seed)
    recs = []
    ncell = 150 if quick else 2500
    G = 8
    for ci in range(ncell):
        L = rng.integers(1, 9, 3) * G
        if ci % 5 == 0:
            L = 2 ** rng.integers(0, 4, 3) * G     # power-of-two edges: face points are decided when the cell is axis aligned
        tilt = [int(rng.integers(-2 * L[0] // G, 2 * L[0] // G + 1)) * G if (rng.random() < .7 and ci % 5) else 0 for _ in range(3)]
        v = [[int(L[0]), 0, 0], [tilt[0], int(L[1]), 0], [tilt[1], tilt[2], int(L[2])]]
        lam = True
        if rng.random() < .35:          # proper signed permutation: right-handed, not LAMMPS oriented
            perm = rng.permutation(3)
            sg = rng.choice([-1, 1], 3)
            Pm = np.zeros((3, 3), dtype=int)
            for j in range(3):
                Pm[perm[j], j] = sg[j]
            if round(np.linalg.det(Pm)) < 0:
                Pm[:, 0] *= -1
            v = (np.array(v) @ Pm).tolist()
        elif rng.random() < .3:         # general orientation AND shape: any right-handed integer matrix with all nine components free
            while True:
                M = rng.integers(-6, 7, (3, 3)) * G
                dM = round(np.linalg.det(M.astype(float)))
                if abs(dM) >= G ** 3 * 8:
                    break
            if dM < 0:
                M[2] = -M[2]
            v = M.tolist()
        lam = v[0][1] == 0 and v[0][2] == 0 and v[1][2] == 0 and v[0][0] > 0 and v[1][1] > 0 and v[2][2] > 0
        o = [int(x) * 2 for x in rng.integers(-20, 21, 3)] if rng.random() < .6 else [0, 0, 0]
        V = np.array(v)
        # the same cell expressed in a much smaller / larger length unit (power of two: every float operation scales exactly)
        k = [1.0, 2.0 ** -32, 2.0 ** 24][int(rng.integers(0, 3))]
        base = {'v': v, 'o': o, 'q': Q, 'tag': 'cell%d' % ci, 'unit': k}
        detn = int(round(np.linalg.det(V.astype(float))))
        try:
            how = int(rng.integers(0, 4))
            if how == 0 or not lam:
                box = am.Box(vects=V / Q * k, origin=np.array(o) / Q * k)
            elif how == 1:
                box = am.Box(avect=(V[0] / Q * k).tolist(), bvect=V[1] / Q * k, cvect=V[2] / Q * k, origin=(np.array(o) / Q * k).tolist())
            elif how == 2:
                box = am.Box(lx=V[0, 0] / Q * k, ly=V[1, 1] / Q * k, lz=V[2, 2] / Q * k, xy=V[1, 0] / Q * k, xz=V[2, 0] / Q * k, yz=V[2, 1] / Q * k, origin=np.array(o) / Q * k)
            else:
                box = am.Box(xlo=o[0] / Q * k, xhi=(o[0] + V[0, 0]) / Q * k, ylo=o[1] / Q * k, yhi=(o[1] + V[1, 1]) / Q * k, zlo=o[2] / Q * k,
                             zhi=(o[2] + V[2, 2]) / Q * k, xy=V[1, 0] / Q * k, xz=V[2, 0] / Q * k, yz=V[2, 1] / Q * k)
            # metric: lengths, angles (through the Gram matrix), volume
            a, b, c = box.a / k, box.b / k, box.c / k
            ca, cb, cg = (np.cos(np.radians(x)) for x in (box.alpha, box.beta, box.gamma))
            gram, ok1 = to_int([a * a, b * b, c * c, b * c * ca, a * c * cb, a * b * cg], Q * Q, tol=1e-9)
            vol, ok2 = to_int(box.volume / k ** 3, Q ** 3, tol=1e-9)
            recs.append(dict(base, ev='metric', gram=gram, vol=vol, ongrid=ok1 and ok2))
            # reciprocal
            rn, ok = to_int(box.reciprocal_vects * k * detn / Q, 1, tol=1e-7)
            recs.append(dict(base, ev='recip', rn=rn, ongrid=ok))
            # LAMMPS getters
            try:
                l = [x / k for x in (box.lx, box.ly, box.lz, box.xy, box.xz, box.yz)]
                lo = [x / k for x in (box.xlo, box.ylo, box.zlo)]
                hi = [x / k for x in (box.xhi, box.yhi, box.zhi)]
                recs.append(dict(base, ev='lammps', refused=False, l=to_int(l, Q)[0], lo=to_int(lo, Q)[0], hi=to_int(hi, Q)[0]))
            except AssertionError:
                recs.append(dict(base, ev='lammps', refused=True, l=[0] * 6, lo=[0] * 3, hi=[0] * 3))
            # rebuild through every other parameter set
            vias = ['abc', 'vectors']
            if lam:
                vias += ['lengths', 'hilos']
            for via in vias:
                if via == 'abc':
                    b2 = am.Box(a=box.a, b=box.b, c=box.c, alpha=box.alpha, beta=box.beta, gamma=box.gamma, origin=box.origin)
                elif via == 'vectors':
                    b2 = am.Box(avect=box.avect, bvect=box.bvect, cvect=box.cvect, origin=box.origin)
                elif via == 'lengths':
                    b2 = am.Box(lx=box.lx, ly=box.ly, lz=box.lz, xy=box.xy, xz=box.xz, yz=box.yz, origin=box.origin)
                else:
                    b2 = am.Box(xlo=box.xlo, xhi=box.xhi, ylo=box.ylo, yhi=box.yhi, zlo=box.zlo, zhi=box.zhi, xy=box.xy, xz=box.xz, yz=box.yz)
                V2 = b2.vects * Q / k
                m = np.abs(V2).max()
                o2, oko = to_int(b2.origin / k, Q, tol=2e-9)
                if lam or via == 'vectors':
                    v2 = np.rint(V2)
                    ok = bool(np.all(np.abs(V2 - v2) <= 2e-9 * m)) and oko
                    rec = dict(base, ev='rebuild', via=via, v2=v2.astype(int).tolist(), o2=o2, ongrid=ok, gram2=[0] * 6, lammps2=True)
                    if not lam:      # 'vectors' on a rotated cell: same vectors expected; express through Gram too
                        g2 = V2 @ V2.T
                        rec['gram2'] = [int(round(g2[0, 0])), int(round(g2[1, 1])), int(round(g2[2, 2])), int(round(g2[1, 2])), int(round(g2[0, 2])), int(round(g2[0, 1]))]
                        rec['lammps2'] = True if via == 'vectors' else bool(b2.is_lammps_norm())
                else:
                    g2 = V2 @ V2.T
                    gi = np.rint(g2)
                    ok = bool(np.all(np.abs(g2 - gi) <= 4e-9 * m * m)) and oko and np.linalg.det(V2) > 0
                    rec = dict(base, ev='rebuild', via=via, v2=[[0] * 3] * 3, o2=o2, ongrid=ok,
                               gram2=[int(gi[0, 0]), int(gi[1, 1]), int(gi[2, 2]), int(gi[1, 2]), int(gi[0, 2]), int(gi[0, 1])],
                               lammps2=bool(b2.is_lammps_norm()))
                recs.append(rec)
            # what the caller does, in place, to anything it read from the box is the caller's business: the box keeps its cell
            snapb = (box.vects.copy(), box.origin.copy(), np.array(box.reciprocal_vects, dtype=float).copy(), box.volume)
            for nm in ('avect', 'bvect', 'cvect', 'vects', 'origin', 'reciprocal_vects'):
                got = getattr(box, nm)
                try:
                    got *= 0.5
                    got += 1.0
                except ValueError:
                    pass                         # a read-only array is a legitimate way of protecting the cell
            if not (np.array_equal(box.vects, snapb[0]) and np.array_equal(box.origin, snapb[1])
                    and np.array_equal(np.array(box.reciprocal_vects, dtype=float), snapb[2]) and box.volume == snapb[3]
                    and np.allclose(box.position_relative_to_cartesian(box.position_cartesian_to_relative(snapb[0])), snapb[0], rtol=1e-9, atol=1e-9 * np.abs(snapb[0]).max())):
                ctx.violation('in-place arithmetic on a value read back from the box changes the box', base.get('tag', ''))
            # points: relative numerators over G on (-1..G+1), faces included; shapes (), (n,), (n,m); list + ndarray
            for shape in ((), (5,), (2, 3)):
                n = int(np.prod(shape)) if shape else 1
                S = rng.integers(-1, G + 2, (n, 3))
                S[rng.random((n, 3)) < .3] = rng.choice([0, G])
                Pn = np.array(o) + (S @ V) // G             # exact: cell entries are multiples of G
                pts = (Pn / Q * k).reshape(shape + (3,))
                arg = pts.tolist() if (ci + len(shape)) % 2 else pts
                rel = box.position_cartesian_to_relative(arg)
                if np.shape(rel) != shape + (3,):
                    ctx.violation('cartesian->relative changes the leading shape', 'in %s out %s' % (shape, np.shape(rel)))
                rn, ok = to_int(np.reshape(rel, (n, 3)) * abs(detn), 1, tol=1e-7)
                recs.append(dict(base, ev='c2r', p=Pn.tolist(), rn=rn, ongrid=ok, inp='list' if isinstance(arg, list) else 'ndarray'))
                sarg = (S / G).reshape(shape + (3,))
                sarg = sarg.tolist() if (ci + len(shape)) % 2 == 0 else sarg
                cart = box.position_relative_to_cartesian(sarg)
                if np.shape(cart) != shape + (3,):
                    ctx.violation('relative->cartesian changes the leading shape', 'in %s out %s' % (shape, np.shape(cart)))
                pn, ok = to_int(np.reshape(cart, (n, 3)) / k, Q * G, tol=1e-9)
                recs.append(dict(base, ev='r2c', s=S.tolist(), g=G, pn=pn, ongrid=ok))
                for incl in (True, False):
                    res = np.reshape(box.inside(arg, inclusive=incl), (n,))
                    recs.append(dict(base, ev='inside', p=Pn.tolist(), incl=incl, res=[bool(x) for x in res]))
                    res = np.reshape(box.outside(arg, inclusive=incl), (n,))
                    recs.append(dict(base, ev='outside', p=Pn.tolist(), incl=incl, res=[bool(x) for x in res]))
        except Exception as e:
            import traceback
            tb = traceback.extract_tb(e.__traceback__)[-1]
            ctx.violation('Box call raised %s at %s:%s' % (excname(e), tb.filename.split('/')[-1], tb.name), repr(e), base)
            continue
    for r_ in recs:
        ctx.count()
        V = np.array(r_['v'])
        if np.any(V != np.diag(np.diag(V))) or any(r_['o']):
            ctx.nontriv((r_['ev'], json.dumps(r_['v']), tuple(r_['o']), json.dumps(r_.get('p', r_.get('s', r_.get('via', 0)))), r_.get('incl', 0)))
    ok, bads, st, tr = tlc.validate_traces('Box_Trace', 'Box_trace.cfg', recs, ctx.work, shards=16)
    ctx.states += st
    ctx.transitions += tr
    ctx.traces += ok
    ctx.extra['trace_records'] = len(recs)
    for b in bads:
        rec = b['record']
        ctx.violation('%s: %s%s' % (rec['ev'], b['clause'], (' via ' + rec['via']) if 'via' in rec else ''),
                      json.dumps(rec, default=tlc._np)[:1200], {'file': b['file'], 'line': b['l']})
    if recs:
        ctx.sample({'kind': 'C->S record', **recs[len(recs) // 2]})
        ctx.sample({'kind': 'C->S record', **[r_ for r_ in recs if r_['ev'] == 'rebuild'][0]})


def replay(path):
    import atomman as am
    d = json.load(open(path))
    print(json.dumps(d, indent=1)[:3000])
    h = d.get('replay')
    if isinstance(h, list) and h and 'act' in h[0]:
        class C:  # minimal ctx
            pass
        bad = _replay_history(am, h, None)
        print('replayed history:', bad)
        return 1 if bad else 0
    return 0
