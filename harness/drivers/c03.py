"""C03 -- neighbour list.  Spec: spec/Nlist.tla (+ MC_Nlist, Nlist_Trace).

Model level : TLC checks AlgPairs = ExpectedPairs for the bin/ghost/sweep algorithm with every occupied bin swept
              (must pass) and with only real-atom bins swept (negative configuration, must fail: that is the
              pinned-tree defect TLC found).
S->C        : every TLC state (cell, pbc, cutoff, atoms incl. positions within 0.01 cutoff of a face) is built as a
              real System; NeighborList must equal the TLC-computed expected lists.
C->S        : seeded random dyadic systems (sparse / dense / clustered / on faces / near bin edges, N = 1..60, cutoffs
              from 0.1 to 1.5 cell widths, all storage sizes, dump/load round trip) -> one record per neighbour list;
              Nlist!VerdictNlist (TLC) recomputes every pair's nearest-of-27 distance and accepts or rejects.
"""
import json
import os

import numpy as np

from .. import tlc
from ..proj import excname

U = 128  # grid denominator of the TLC model


def _system(am, v, o, pbc, pos, q):
    box = am.Box(vects=np.array(v, dtype=float) / q, origin=np.array(o, dtype=float) / q)
    return am.System(atoms=am.Atoms(pos=np.array(pos, dtype=float).reshape(-1, 3) / q), box=box, pbc=pbc)


def _lists(nl):
    return [[int(x) + 1 for x in nl[i]] for i in range(len(nl))]


def _sig(got, exp):
    miss = sum(len(set(e) - set(g)) for g, e in zip(got, exp))
    extra = sum(len(set(g) - set(e)) for g, e in zip(got, exp))
    if miss and not extra:
        return 'neighbour list misses a pair closer than the cutoff'
    if extra and not miss:
        return 'neighbour list lists a pair beyond the cutoff'
    return 'neighbour list differs from expected lists'


def run(ctx):
    import atomman as am
    quick = ctx.tier == 'quick'
    ctx.rule = ('S->C: all TLC states (2-3 atoms placed on a grid that contains faces and offsets within 0.01 cutoff of '
                'faces, 2 cells, 8 pbc); C->S: seeded random dyadic systems; non-trivial = at least one pair within the '
                'cutoff is reached only through a periodic image, or N > 40 atoms in one bin, or a storage-size/dump-load '
                'variant; distinct by full input')
    ctx.trusted = ['TLC', 'float64 exactness on the dyadic grid']
    # ---- model level -------------------------------------------------------------------------------
    r = tlc.must_pass(tlc.run('MC_Nlist', 'Nlist_exh_quick.cfg', workers=16, timeout=3000), 'Nlist_exh_quick')
    ctx.add_tlc(r)
    cases = list(r.cases)
    r3 = tlc.must_pass(tlc.run('MC_Nlist', 'Nlist_exh3.cfg', workers=16, timeout=3000), 'Nlist_exh3')
    ctx.add_tlc(r3)
    cases += r3.cases
    if not quick:
        rt = tlc.must_pass(tlc.run('MC_Nlist', 'Nlist_exh_thorough.cfg', workers=16, timeout=6000, heap='8g'),
                           'Nlist_exh_thorough')
        ctx.add_tlc(rt)
        cases += rt.cases
        ctx.exhaustive = True
    rn = tlc.run('MC_Nlist', 'Nlist_neg.cfg', workers=16, timeout=1800)
    tlc.must_fail(rn, 'Nlist_neg', 'AlgCorrect')
    ctx.extra['negative_model_rejected'] = True
    ctx.extra['model_states_where_realbin_sweep_loses_a_pair'] = sum(1 for c in cases if c['lost'])

    # ---- S->C ----------------------------------------------------------------------------------------
    for c in cases:
        ctx.count()
        s = _system(am, c['v'], c['o'], c['pbc'], c['pos'], U)
        try:
            nl = am.NeighborList(system=s, cutoff=c['cut'] / U)
            got = _lists(nl)
            coord = [int(x) for x in nl.coord]
        except Exception as e:
            ctx.violation('NeighborList raised %s on a valid system (S->C)' % excname(e), repr(e), c)
            continue
        exp = [sorted(x) for x in c['expect']]
        if any(exp):
            direct = np.array(c['pos'], dtype=float)
            ctx.nontriv(('s2c', json.dumps(c['pos']), tuple(c['pbc']), c['cut'], json.dumps(c['v'])))
        if got != exp or coord != [len(x) for x in exp]:
            ctx.violation(_sig(got, exp) + ' (S->C)', 'got %s expected %s' % (got, exp), c)
        ctx.traces += 1
    lostc = [c for c in cases if c['lost']]
    ctx.sample({'kind': 'S->C case (TLC state where sweeping only real-atom bins loses the pair)', **(lostc or cases)[0]})

    # ---- C->S ----------------------------------------------------------------------------------------
    rng = np.random.default_rng(ctx.seed)
    recs = []
    nsys = 220 if quick else 2500
    import tempfile
    tmpd = tempfile.mkdtemp(prefix='nl_', dir=ctx.work)
    for si in range(nsys):
        Q = 16
        kind = int(rng.integers(0, 6))          # drawn, as are the storage sizes and the file round trip below (no modular coupling)
        L = rng.integers(3, 9, 3) * Q                     # 3..8 length units
        tilt = [int(rng.integers(-L[0] // 2, L[0] // 2 + 1)) if rng.random() < .5 else 0 for _ in range(3)]
        if rng.random() < .25:          # thin, strongly sheared cell: a combination of cell vectors (b - a, c - b) is shorter than each of them
            L[1] = int(rng.integers(2, 4)) * Q
            tilt[0] = int(L[0] - Q * rng.integers(0, 2))            # multiples of Q keep every position on the integer grid
            if rng.random() < .5:
                L[2] = int(rng.integers(2, 4)) * Q
                tilt[1], tilt[2] = int(tilt[0] // (2 * Q)) * Q, int(L[1] - Q * rng.integers(0, 2))
        v = [[int(L[0]), 0, 0], [tilt[0], int(L[1]), 0], [tilt[1], tilt[2], int(L[2])]]
        if rng.random() < .25:
            perm = rng.permutation(3)
            v = [[int(row[perm[j]]) for j in range(3)] for row in v]
            if np.linalg.det(np.array(v, dtype=float)) < 0:
                v[2] = [-x for x in v[2]]
        o = [int(x) for x in rng.integers(-40, 41, 3)] if rng.random() < .5 else [0, 0, 0]
        pbc = [bool(x) for x in rng.integers(0, 2, 3)]
        if kind == 0:
            pbc = [True, True, True]
        V = np.array(v)
        n = int(rng.integers(1, 5)) if kind == 1 else int(rng.integers(5, 61 if kind != 3 else 31))
        D = 64                                           # relative numerators over D (cell entries are multiples of Q=16; D=64 -> positions on 1/(4Q)... keep integer by using Q*4 grid)
        QQ = Q * 4                                       # position grid denominator 64
        VV = V * 4
        if kind == 2:                                    # clustered
            ctr = rng.integers(0, D, 3)
            rel = (ctr + rng.integers(-3, 4, (n, 3))) % D
        elif kind == 3:                                  # faces / edges / near faces
            rel = rng.choice([0, 0, 1, D // 2, D - 1, D - 1, D // 4], (n, 3))
        elif kind == 4:                                  # dense: many atoms in one bin
            n = int(rng.integers(45, 70))
            rel = rng.integers(0, 8, (n, 3))
        else:
            rel = rng.integers(0, D, (n, 3))
        P = np.array(o) * 4 + (rel @ VV) // D
        # (rel @ VV) / D must be integral: VV entries are multiples of 64 = D
        if kind == 4:
            cutn = int(rng.integers(QQ, 2 * QQ))
        else:
            cutn = int(rng.choice([QQ // 4, QQ // 2, QQ, QQ + 7, 2 * QQ, 3 * QQ, int(1.5 * L.max() / Q * QQ)]))
            if n > 30 and cutn > 3 * QQ:
                cutn = 2 * QQ
        if len(set(map(tuple, P.tolist()))) < len(P) and rng.random() < .7:
            P = np.unique(P, axis=0)
            rng.shuffle(P)
            n = len(P)
        s = _system(am, (V * 4).tolist(), (np.array(o) * 4).tolist(), pbc, P, QQ)
        base = {'v': (V * 4).tolist(), 'o': (np.array(o) * 4).tolist(), 'pbc': pbc, 'pos': P.tolist(), 'cut2': cutn * cutn}
        variants = [('default', {})]
        if rng.random() < .34:
            variants += [('init1delta1', {'initialsize': 1, 'deltasize': 1}), ('init2delta3', {'initialsize': 2, 'deltasize': 3}),
                         ('init3delta2', {'initialsize': 3, 'deltasize': 2})]
        for name, kw in variants:
            try:
                nl = am.NeighborList(system=s, cutoff=cutn / QQ, **kw)
                recs.append(dict(base, ev='nlist', nl=_lists(nl), coord=[int(x) for x in nl.coord], tag='%s:%d:k%d' % (name, si, kind)))
                if name == 'default' and rng.random() < .3:
                    fn = os.path.join(tmpd, 'nl.txt')
                    nl.dump(fn)
                    for how in ('path', 'text'):
                        nl2 = am.NeighborList(model=fn if how == 'path' else open(fn).read())
                        if not np.array_equal(np.asarray(nl2.nlist)[:, 0], np.asarray(nl2.coord)) or not np.array_equal(np.asarray(nl.nlist)[:, 0], np.asarray(nl.coord)):
                            ctx.violation('nlist[dumpload_%s]: first column of the neighbour table is not the coordination number' % how, '', dict(base))
                        recs.append(dict(base, ev='nlist', nl=_lists(nl2), coord=[int(x) for x in nl2.coord],
                                         tag='dumpload_%s:%d:k%d' % (how, si, kind)))
            except Exception as e:
                ctx.violation('NeighborList (%s) raised %s on a valid system' % (name.split(':')[0], excname(e)), repr(e),
                              dict(base, kw=kw))
    import shutil
    shutil.rmtree(tmpd, ignore_errors=True)
    for r_ in recs:
        ctx.count()
        P = np.array(r_['pos'])
        nontriv = False
        if len(P) > 1 and any(r_['nl']):
            # a listed pair whose direct distance is not below the cutoff was reached through an image
            for i, row in enumerate(r_['nl']):
                for j in row:
                    if not (1 <= j <= len(P)):
                        continue
                    if ((P[i] - P[j - 1]) ** 2).sum() >= r_['cut2']:
                        nontriv = True
                        break
                if nontriv:
                    break
        if nontriv or not r_['tag'].startswith('default') or ':k4' in r_['tag']:
            ctx.nontriv((r_['tag'].split(':')[0], json.dumps(r_['pos']), json.dumps(r_['v']), tuple(r_['pbc']), r_['cut2']))
    ok, bads, st, tr = tlc.validate_traces('Nlist_Trace', 'Nlist_trace.cfg', recs, ctx.work, shards=16)
    ctx.states += st
    ctx.transitions += tr
    ctx.traces += ok
    ctx.extra['trace_records'] = len(recs)
    ctx.extra['max_atoms'] = max(len(r_['pos']) for r_ in recs)
    for b in bads:
        rec = b['record']
        ctx.violation('nlist[%s]: %s' % (rec['tag'].split(':')[0], b['clause']),
                      json.dumps({k: rec[k] for k in ('v', 'o', 'pbc', 'pos', 'cut2', 'tag')})[:1500],
                      {'file': b['file'], 'line': b['l']})
    from .. import umbrella
    import atomman as _am
    umbrella.run(ctx, _am, 'C03')      # cross-module histories of spec/Atomman.tla (only the steps this property owns are reported here)
    small = [r_ for r_ in recs if len(r_['pos']) <= 6 and any(r_['nl'])]
    if small:
        ctx.sample({'kind': 'C->S record', **small[0]})


def replay(path):
    import atomman as am
    d = json.load(open(path))
    print(json.dumps(d, indent=1)[:3000])
    c = d.get('replay') or {}
    if 'pos' in c and 'cut' in c:
        s = _system(am, c['v'], c['o'], c['pbc'], c['pos'], U)
        nl = am.NeighborList(system=s, cutoff=c['cut'] / U)
        print('real NeighborList:', _lists(nl), 'expected', c.get('expect'))
        return 0 if _lists(nl) == [sorted(x) for x in c['expect']] else 1
    return 0
