"""C07 -- written LAMMPS data / dump files and POSCAR files are well-formed and describe the system.
Spec: spec/FileFormats.tla (grammar state machine over the lines of the file + column/unit semantics).

C->S decides: the driver builds systems FROM the values the file should contain (dyadic numbers in the requested LAMMPS unit
style, turned into working units with numericalunits constants taken from a table written from the LAMMPS manual -- not
through atomman.lammps.style), calls the real writers, tokenizes the text with a parser that knows nothing about atomman
(line kinds + integers at precision 1e-3) and hands file + expectation to TLC: FileFormats!VerdictFile accepts or rejects.
"""
import json
import re

import numpy as np

from .. import tlc
from ..proj import excname

P = 1000
# LAMMPS manual, "units" command: symbolic units per style (length, time, charge, mass, density)
UNITS = {
    'metal': dict(mass='amu', length='angstrom', velocity=('angstrom', 'ps'), charge='e', density=('g', 'cm', 3)),
    'real': dict(mass='amu', length='angstrom', velocity=('angstrom', 'fs'), charge='e', density=('g', 'cm', 3)),
    'si': dict(mass='kg', length='m', velocity=('m', 's'), charge='C', density=('kg', 'm', 3)),
    'cgs': dict(mass='g', length='cm', velocity=('cm', 's'), charge=None, density=('g', 'cm', 3)),
    'nano': dict(mass='ag', length='nm', velocity=('nm', 'ns'), charge='e', density=('ag', 'nm', 3)),
    'micro': dict(mass='pg', length='um', velocity=('um', 'us'), charge='pC', density=('pg', 'um', 3)),
}


def U(nu, name):
    extra = {'ag': lambda: 1e-18 * nu.g, 'pg': lambda: 1e-12 * nu.g, 'pC': lambda: 1e-12 * nu.C, 'um': lambda: 1e-6 * nu.m, 'us': lambda: 1e-6 * nu.s}
    if name in extra:
        return extra[name]()
    return getattr(nu, name)


def factor(nu, kind, style):
    u = UNITS[style][kind]
    if u is None:
        return None
    if kind == 'velocity':
        return U(nu, u[0]) / U(nu, u[1])
    if kind == 'density':
        return U(nu, u[0]) / U(nu, u[1]) ** u[2]
    return U(nu, u)


def I(x):
    # clamped: a value written in an entirely different unit stays a 32-bit integer for TLC (and is still far from what is expected)
    return int(max(-1e9, min(1e9, round(float(x) * P))))


# ---------------- independent tokenizers -------------------------------------------------------------------------------------
NUM = re.compile(r'^[+-]?(\d+\.?\d*([eE][+-]?\d+)?|\.\d+([eE][+-]?\d+)?)$')


def tok_data(text):
    out = []
    for raw in text.split('\n'):
        comment = ''
        line = raw
        if '#' in raw:
            line, comment = raw.split('#', 1)
        t = line.split()
        if not t:
            out.append({'k': 'blank'})
        elif len(t) == 2 and t[1] == 'atoms' and t[0].isdigit():
            out.append({'k': 'natoms', 'n': int(t[0])})
        elif len(t) == 3 and t[1:] == ['atom', 'types'] and t[0].isdigit():
            out.append({'k': 'ntypes', 'n': int(t[0])})
        elif len(t) == 4 and t[2:] in (['xlo', 'xhi'], ['ylo', 'yhi'], ['zlo', 'zhi']) and NUM.match(t[0]) and NUM.match(t[1]):
            out.append({'k': 'bounds', 'ax': 'xyz'.index(t[2][0]) + 1, 'lo': I(t[0]), 'hi': I(t[1])})
        elif len(t) == 6 and t[3:] == ['xy', 'xz', 'yz'] and all(NUM.match(x) for x in t[:3]):
            out.append({'k': 'tilt', 't': [I(x) for x in t[:3]]})
        elif len(t) == 1 and t[0].isalpha():
            out.append({'k': 'section', 'name': t[0], 'comment': comment.strip()})
        elif all(NUM.match(x) for x in t):
            isint = [bool(re.match(r'^[+-]?\d+$', x)) for x in t]
            out.append({'k': 'row', 'v': [max(-10 ** 9, min(10 ** 9, int(x))) if ii else I(x) for x, ii in zip(t, isint)], 'isint': isint})
        else:
            out.append({'k': 'other', 'text': raw[:40]})
    while out and out[-1]['k'] == 'blank' and len(out) > 1 and out[-2]['k'] == 'blank':
        out.pop()
    return out


def tok_info(info):
    d = {'units': '', 'atom_style': '', 'boundary': ['', '', '']}
    for line in info.split('\n'):
        t = line.split('#')[0].split()
        if len(t) >= 2 and t[0] == 'units':
            d['units'] = t[1]
        elif len(t) >= 2 and t[0] == 'atom_style':
            d['atom_style'] = ' '.join(t[1:])
        elif len(t) == 4 and t[0] == 'boundary':
            d['boundary'] = t[1:]
    return d


def tok_dump(text, ps, lenmag=1.0):
    """lenmag: the length scale of the written system in the file's unit (1e-10 for an atomic-scale system written in metres);
    lengths are divided by it before they are turned into fixed-point integers"""
    lines = text.split('\n')
    hdr = {'natoms': -1, 'tri': False, 'flags': ['', '', ''], 'b': [], 'cols': []}
    rows = []
    mal = 'ok'
    i = 0
    try:
        while i < len(lines):
            ln = lines[i]
            if ln.startswith('ITEM: TIMESTEP'):
                int(lines[i + 1])
                i += 2
            elif ln.startswith('ITEM: NUMBER OF ATOMS'):
                hdr['natoms'] = int(lines[i + 1])
                i += 2
            elif ln.startswith('ITEM: BOX BOUNDS'):
                t = ln.split()[3:]
                hdr['tri'] = t[:3] == ['xy', 'xz', 'yz']
                hdr['flags'] = t[3:] if hdr['tri'] else t
                for k in range(3):
                    vals = lines[i + 1 + k].split()
                    if len(vals) != (3 if hdr['tri'] else 2):
                        mal = 'box_bounds_line_has_the_wrong_number_of_values'
                    hdr['b'].append([I(float(x) / lenmag) for x in vals])
                i += 4
            elif ln.startswith('ITEM: ATOMS'):
                hdr['cols'] = ln.split()[2:]
                sc = [c in ('xs', 'ys', 'zs') for c in hdr['cols']]
                ln_ = [c in ('x', 'y', 'z', 'xu', 'yu', 'zu') for c in hdr['cols']]
                for r in lines[i + 1:]:
                    t = r.split()
                    if not t:
                        continue
                    isint = [bool(re.match(r'^[+-]?\d+$', x)) for x in t]
                    rows.append({'v': [int(x) if ii else (int(round(float(x) * ps)) if (k < len(sc) and sc[k]) else I(float(x) / lenmag if (k < len(ln_) and ln_[k]) else x)) for k, (x, ii) in enumerate(zip(t, isint))],
                                 'isint': isint})
                i = len(lines)
            elif not ln.strip():
                i += 1
            else:
                mal = 'unexpected_line'
                i += 1
    except Exception as e:
        mal = 'unparsable_' + type(e).__name__
    if len(hdr['flags']) != 3 or len(hdr['b']) != 3:
        mal = 'box_header_incomplete' if mal == 'ok' else mal
        hdr['flags'] = (hdr['flags'] + ['', '', ''])[:3]
        hdr['b'] = (hdr['b'] + [[0, 0, 0]] * 3)[:3]
    return hdr, rows, mal


def tok_poscar(text):
    L = text.split('\n')
    mal = 'ok'
    try:
        scale = I(L[1])
        lat = [[I(x) for x in L[2 + k].split()] for k in range(3)]
        j = 5
        symbols = []
        if not all(re.match(r'^\d+$', x) for x in L[j].split()):
            symbols = L[j].split()
            j += 1
        counts = [int(x) for x in L[j].split()]
        j += 1
        if L[j].strip()[:1] in 'sS':
            j += 1
        mode = 'c' if L[j].strip()[:1] in 'cCkK' else 'd'
        rows = [[I(x) for x in r.split()[:3]] for r in L[j + 1:] if r.strip()]
        if any(len(r) != 3 for r in lat) or any(len(r) != 3 for r in rows):
            mal = 'row_without_three_numbers'
    except Exception as e:
        return {'malformed': 'unparsable_' + type(e).__name__, 'scale': 1, 'lat': [[0] * 3] * 3, 'counts': [], 'symbols': [], 'mode': 'd', 'rows': []}
    return {'malformed': mal, 'scale': scale, 'lat': lat, 'counts': counts, 'symbols': symbols, 'mode': mode, 'rows': rows}


# ---------------- systems --------------------------------------------------------------------------------------------------
def make_case(rng, i):
    # every option is drawn independently: modular patterns (origin 0 exactly when the scaled columns were written) hid a seeded change
    tri = bool(rng.random() < .5)
    a = [float(rng.integers(2, 7)), 0.0, 0.0]
    b = [float(rng.integers(-4, 5)) / 2 if tri else 0.0, float(rng.integers(2, 7)), 0.0]
    c = [float(rng.integers(-4, 5)) / 4 if tri else 0.0, float(rng.integers(-4, 5)) / 2 if tri else 0.0, float(rng.integers(2, 7))]
    o = [float(x) / 2 for x in rng.integers(-6, 7, 3)] if rng.random() < .65 else [0.0, 0.0, 0.0]
    n = int(rng.integers(1, 7))
    place = ['inside', 'outside', 'face'][int(rng.integers(0, 3))]
    rel = rng.integers(0, 8, (n, 3)) / 8.0
    if place == 'outside':
        rel = rel + rng.integers(-2, 3, (n, 3))
    elif place == 'face':
        rel[rng.random((n, 3)) < .5] = 0.0
    V = np.array([a, b, c])
    pos = rel @ V + np.array(o)
    atype = rng.integers(1, 4, n)
    if rng.random() < .2:
        atype[:] = 3 if n > 1 else 1
    d = {'a': a, 'b': b, 'c': c, 'o': o, 'pos': pos.tolist(), 'rel': rel.tolist(), 'atype': atype.tolist(),
         'pbc': [bool(x) for x in rng.integers(0, 2, 3)] if rng.random() < .75 else [True, True, True],
         'vel': (rng.integers(-16, 17, (n, 3)) / 8.0).tolist() if rng.random() < .5 else None,
         'q': (rng.integers(-8, 9, n) / 8.0).tolist(), 'mol': rng.integers(1, 4, n).tolist(),
         'diameter': (rng.integers(1, 9, n) / 8.0).tolist(), 'density': (rng.integers(8, 80, n) / 8.0).tolist(),
         'omega': (rng.integers(-16, 17, (n, 3)) / 8.0).tolist(),
         # columns of the less common atom styles (dipole, electron, ellipsoid, line, tri, body, wavepacket)
         'volume': (rng.integers(1, 65, n) / 8.0).tolist(), 'mu': (rng.integers(-16, 17, (n, 3)) / 8.0).tolist(), 'espin': rng.integers(-1, 2, n).tolist(), 'eradius': (rng.integers(1, 17, n) / 8.0).tolist(),
         'flag': rng.integers(0, 2, n).tolist(), 'amass': (rng.integers(8, 400, n) / 8.0).tolist(), 'etag': rng.integers(1, 5, n).tolist(),
         'csre': (rng.integers(-8, 9, n) / 8.0).tolist(), 'csim': (rng.integers(-8, 9, n) / 8.0).tolist()}
    return d


def build_system(am, nu, d, style):
    fl = factor(nu, 'length', style)
    props = {}
    if d['vel'] is not None:
        props['velocity'] = np.array(d['vel']) * factor(nu, 'velocity', style)
        props['ang_velocity'] = np.array(d['omega']) / U(nu, UNITS[style]['velocity'][1])     # 1/time in the style's time unit
    fq = factor(nu, 'charge', style)
    if fq is not None:
        props['charge'] = np.array(d['q']) * fq
    props['m_id'] = np.array(d['mol'])
    props['diameter'] = np.array(d['diameter']) * fl
    props['density'] = np.array(d['density']) * factor(nu, 'density', style)
    if fq is not None:
        props['mu'] = np.array(d['mu']) * fq * fl
    props['espin'] = np.array(d['espin'])
    props['volume'] = np.array(d['volume']) * fl ** 3
    props['eradius'] = np.array(d['eradius']) * fl
    for nm in ('eflag', 'lflag', 'tflag', 'bflag'):
        props[nm] = np.array(d['flag'])
    props['mass'] = np.array(d['amass']) * factor(nu, 'mass', style)
    props['e_id'] = np.array(d['etag'])
    props['cs_re'] = np.array(d['csre'])
    props['cs_im'] = np.array(d['csim'])
    atoms = am.Atoms(atype=d['atype'], pos=np.array(d['pos']) * fl, **props)
    box = am.Box(avect=np.array(d['a']) * fl, bvect=np.array(d['b']) * fl, cvect=np.array(d['c']) * fl, origin=np.array(d['o']) * fl)
    nt = max(d['atype'])
    return am.System(atoms=atoms, box=box, pbc=d['pbc'], symbols=['Al', 'Cu', 'Ni'][:nt])


def sysrec(d, stylekey, stylename, units):
    n = len(d['atype'])
    return {'natoms': n, 'ntypes': max(d['atype']), 'style': stylekey, 'stylename': stylename, 'units': units,
            'tilted': bool(d['b'][0] or d['c'][0] or d['c'][1]),
            'a': [I(x) for x in d['a']], 'b': [I(x) for x in d['b']], 'c': [I(x) for x in d['c']], 'o': [I(x) for x in d['o']], 'pbc': d['pbc'],
            'atoms': [[int(d['atype'][k]), int(d['mol'][k]), I(d['q'][k]), I(d['diameter'][k]), I(d['density'][k]), [I(x) for x in d['pos'][k]],
                       [I(x) for x in d['rel'][k]], _others(d, stylekey, k)] for k in range(n)],
            'vel': [[I(x) for x in v] for v in d['vel']] if d['vel'] is not None else [],
            'omega': [[I(x) for x in v] for v in d['omega']], 'nvel': 7 if 'sphere' in stylename else 4}


OTHERS = {'peri': lambda d, k: [I(d['volume'][k])], 'dipole': lambda d, k: [I(x) for x in d['mu'][k]], 'electron': lambda d, k: [int(d['espin'][k]), I(d['eradius'][k])],
          'ellipsoid': lambda d, k: [int(d['flag'][k])], 'line': lambda d, k: [int(d['flag'][k])], 'tri': lambda d, k: [int(d['flag'][k])],
          'body': lambda d, k: [int(d['flag'][k]), I(d['amass'][k])],
          'wavepacket': lambda d, k: [int(d['espin'][k]), I(d['eradius'][k]), int(d['etag'][k]), I(d['csre'][k]), I(d['csim'][k])]}
RARE = tuple(OTHERS)


def _others(d, stylekey, k):
    return OTHERS[stylekey](d, k) if stylekey in OTHERS else []


STYLES = [('hybridsq', 'hybrid sphere charge'), ('atomic', 'atomic'), ('charge', 'charge'), ('molecular', 'molecular'), ('full', 'full'), ('sphere', 'sphere'), ('hybridq', 'hybrid charge'),
          ('bond', 'bond'), ('angle', 'angle')] + [(k_, k_) for k_ in ('peri', 'dipole', 'electron', 'ellipsoid', 'line', 'tri', 'body', 'wavepacket')]


class _StubPotential(object):
    """stands in for a potentials-package LAMMPS potential: its own unit and atom styles, which explicitly passed values override"""
    def __init__(self, units, atom_style):
        self.units = units
        self.atom_style = atom_style

    def normalize_symbols(self, symbols):
        return list(symbols)

    def pair_data_info(self, f, pbc, symbols=None, masses=None, atom_style=None, units=None, prompt=False, comments=True):
        return 'units %s\natom_style %s\n\nboundary %s\nread_data %s\n' % (units, atom_style, ' '.join('p' if x else 'm' for x in pbc), f)


def run(ctx):
    import atomman as am
    import atomman.unitconvert as uc
    import numericalunits as nu
    quick = ctx.tier == 'quick'
    ctx.rule = ('seeded systems built from the values the file should contain (orthogonal / triclinic, origin, atoms inside / up to 2 cells '
                'outside / on faces, random pbc, velocities or not) x 8 atom styles x 6 unit styles x 4 float formats (data), x / xs columns '
                '(dump), direct / Cartesian x scale 1, 2, 0.5 (POSCAR); every file is non-trivial unless orthogonal+origin 0+inside; distinct by input')
    ctx.trusted = ['TLC', 'the tokenizers in this driver', 'numericalunits constants for the symbolic units of the LAMMPS manual']
    rng = np.random.default_rng(ctx.seed)
    recs = []
    ncase = 900 if quick else 6000
    ffs = ['%.13f', '%.6f', '%.3f', '%.5e']
    try:
        for i in range(ncase):
            d = make_case(rng, i)
            units = list(UNITS)[int(rng.integers(0, len(UNITS)))]
            # working units: half of the runs in the style's own units, half crossed
            ang = bool(rng.random() < .5)
            if ang:
                uc.reset_units(length='angstrom', mass='amu', energy='eV', charge='e')
            else:
                uc.reset_units(seed=1000 + i)
            skey, sname = STYLES[int(rng.integers(0, len(STYLES)))]
            if UNITS[units]['charge'] is None and skey in ('charge', 'full', 'hybridq', 'hybridsq', 'dipole', 'electron', 'wavepacket'):
                skey, sname = 'atomic', 'atomic'
            ff = ffs[int(rng.integers(0, 4))]
            try:
                dd_ = dict(d, vel=None) if skey in RARE else d        # the rare styles carry their own extra velocity columns: written without velocities
                s = build_system(am, nu, dd_, units)
                kwp = {}
                if rng.random() < .3:       # a potential is given as well: explicitly passed units / atom_style take precedence over the potential's own
                    kwp['potential'] = _StubPotential(list(UNITS)[int(rng.integers(0, len(UNITS)))], ['atomic', 'charge', 'full'][int(rng.integers(0, 3))])
                text, info = s.dump('atom_data', atom_style=sname, units=units, float_format=ff, safecopy=True, **kwp)
                recs.append({'ev': 'data', 'tag': 'data:%s:%s:%s:%d' % (sname, units, ff, i), 'lines': tok_data(text), 'info': tok_info(info),
                             'sys': sysrec(dd_, skey, sname, units), 'slack': 1, 'p': 3})
            except Exception as e:
                ctx.violation('data file writer raised %s [%s,%s]' % (excname(e), sname, units), repr(e)[:300], {'style': sname, 'units': units})
            # dump file
            dunits = units
            try:
                scaled = bool(rng.random() < .4)
                names = ['atom_id', 'atype', 'spos' if scaled else 'pos'] + (['velocity'] if d['vel'] is not None else []) + \
                        (['charge'] if UNITS[units]['charge'] is not None else [])
                # half of the files in the macroscopic unit styles hold an ATOMIC-scale system (1e-10 m, 1e-8 cm, 1e-4 um): tiny numbers
                # in the file's unit, written in exponent format
                lenmag = {'si': 1e-10, 'cgs': 1e-8, 'micro': 1e-4}.get(units, 1.0) if rng.random() < .5 else 1.0
                dd_ = d if lenmag == 1.0 else dict(d, a=[x * lenmag for x in d['a']], b=[x * lenmag for x in d['b']], c=[x * lenmag for x in d['c']],
                                                   o=[x * lenmag for x in d['o']], pos=(np.array(d['pos']) * lenmag).tolist())
                sd = build_system(am, nu, dd_, units)
                dff = ('%.6f' if ff == '%.13f' else ff) if lenmag == 1.0 else '%.13e'
                text = sd.dump('atom_dump', lammps_units=dunits, prop_name=names, float_format=dff)
                hdr, rows, mal = tok_dump(text, 10000, lenmag)
                recs.append({'ev': 'dump', 'tag': 'dump:%s:%s:%d' % (dunits, 'xs' if scaled else 'x', i), 'hdr': hdr, 'rows': rows, 'malformed': mal,
                             'sys': sysrec(d, 'atomic', 'atomic', units), 'slack': 1 if ff != '%.3f' or not scaled else 1, 'ps': 10000})
            except Exception as e:
                ctx.violation('dump file writer raised %s [%s]' % (excname(e), dunits), repr(e)[:300])
            # POSCAR (fully periodic, origin 0: the format has neither flags nor origin)
            if not any(d['o']) and ang:      # working units based on angstrom (POSCAR is an angstrom format)
                try:
                    sc = [1.0, 2.0, 0.5][int(rng.integers(0, 3))]
                    mode = 'direct' if rng.random() < .5 else 'cartesian'
                    sp = build_system(am, nu, dict(d, pbc=[True, True, True]), 'metal')
                    uc_l = factor(nu, 'length', 'metal')
                    text = sp.dump('poscar', coordstyle=mode, box_scale=sc, float_format='%.6f')
                    tk = tok_poscar(text)
                    order = [k + 1 for t in range(1, max(d['atype']) + 1) for k in range(len(d['atype'])) if d['atype'][k] == t]
                    y = sysrec(d, 'atomic', 'atomic', 'metal')
                    y['cell'] = [y['a'], y['b'], y['c']]
                    y['order'] = order
                    y['symbols'] = ['Al', 'Cu', 'Ni'][:max(d['atype'])]
                    # POSCAR holds lengths in angstrom whatever the working units are: the system was built with nu.angstrom
                    recs.append({'ev': 'poscar', 'tag': 'poscar:%s:%s:%d' % (mode, sc, i), **tk, 'sys': y, 'slack': 1, 'pp': P})
                except Exception as e:
                    ctx.violation('POSCAR writer raised %s' % excname(e), repr(e)[:300])
    finally:
        uc.reset_units()
    for r_ in recs:
        ctx.count()
        y = r_['sys']
        if y['tilted'] or any(y['o']) or 'data' not in r_['tag'] or any(len(row.get('v', [])) > 7 for row in r_.get('lines', []) if row['k'] == 'row'):
            ctx.nontriv(r_['tag'])
    ok, bads, st, tr = tlc.validate_traces('File_Trace', 'File_trace.cfg', recs, ctx.work, shards=16, timeout=7200)
    ctx.states += st
    ctx.transitions += tr
    ctx.traces += ok
    ctx.extra['files'] = {k: sum(1 for r_ in recs if r_['ev'] == k) for k in ('data', 'dump', 'poscar')}
    import copy
    neg = []
    dd = [r_ for r_ in recs if r_['ev'] == 'data' and r_['sys']['natoms'] > 1]
    if dd:
        c = copy.deepcopy(dd[0]); c['lines'] = [l for l in c['lines'] if l['k'] != 'ntypes']; neg.append(c)                 # header incomplete
        c = copy.deepcopy(dd[0]); rows = [l for l in c['lines'] if l['k'] == 'row']; rows[0]['v'][0] = rows[1]['v'][0]; neg.append(c)   # duplicate id
        c = copy.deepcopy(dd[0]); c['sys']['atoms'][0][5][0] += 7000; neg.append(c)                                              # position differs
        c = copy.deepcopy(dd[0]); c['info']['units'] = 'lj'; neg.append(c)
    du = [r_ for r_ in recs if r_['ev'] == 'dump']
    if du:
        c = copy.deepcopy(du[0]); c['hdr']['natoms'] += 1; neg.append(c)
    po = [r_ for r_ in recs if r_['ev'] == 'poscar']
    if po:
        c = copy.deepcopy(po[0]); c['scale'] *= 2; neg.append(c)
    ctx.extra['corrupted_records_rejected'] = tlc.must_reject('File_Trace', 'File_trace.cfg', neg, ctx.work, 'C07')
    for b in bads:
        rec = b['record']
        t = rec['tag'].split(':')
        if rec['ev'] == 'data':
            where = 'data' if 'snippet' in b['clause'] else 'data[%s]' % t[1]
        elif rec['ev'] == 'dump':
            where = 'dump[%s]' % t[2]
        else:
            where = 'poscar[%s,scale%s]' % (t[1], '=1' if t[2] == '1.0' else '#1')
        ctx.violation('%s: %s' % (where, b['clause']), json.dumps({k: v for k, v in rec.items() if k not in ('lines', 'rows')}, default=tlc._np)[:1200],
                      {'file': b['file'], 'line': b['l']})
    ctx.sample({'kind': 'C->S data-file record (tokenized lines)', 'tag': recs[0]['tag'], 'lines': recs[0].get('lines', [])[:14]})
    ps = [r_ for r_ in recs if r_['ev'] == 'poscar']
    if ps:
        ctx.sample({'kind': 'C->S POSCAR record', **{k: v for k, v in ps[0].items() if k != 'sys'}})


def replay(path):
    print(open(path).read()[:3000])
    return 0
