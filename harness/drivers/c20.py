"""C20 -- integrator steps, numerical gradient, string relaxation.  Spec: spec/Integrators.tla.

S->C : TLC enumerates every (A, y, h) with d <= 2 and computes, in exact rational arithmetic, the degree-1 and degree-4 Taylor
       polynomials of exp(hA) y; it checks on the whole domain that the textbook four-stage form equals the degree-4
       polynomial and, as a negative configuration that must fail, that the form with backward stage points does not.
       euler() / rungekutta() must return exactly those values.  Gradient: polynomials of degree <= 3 in 3 variables, expected
       central difference = grad + h^2 * cubic coefficient (second order, exact for quadratics), exact rationals.
C->S : random integer systems of dimension 3..6 (recorded steps decided by TLC); string relaxation on E=(x^2-1)^2+c y^2 (+bent /
       straight initial strings, image counts, time steps, default and explicit constructor options): end state decided by TLC.
"""
import json

import numpy as np

from .. import tlc
from ..proj import excname


def fr(q):
    return q[0] / q[1]


def _cl(v):
    """diverged values are clamped into TLC's integer range (they fail the verdict all the same)"""
    v = float(v)
    if v != v:
        return 1 << 30
    return int(max(-(1 << 30), min(1 << 30, v)))


def run(ctx):
    import atomman as am
    from atomman.mep.integrator import euler, rungekutta
    from atomman.mep.gradient import central_difference
    from atomman import mep
    quick = ctx.tier == 'quick'
    ctx.rule = ('S->C: all integer A (entries -1..1 quick / -2..2 thorough), y in -2..2, d<=2, h in {1/2,1/8}; 4 cubic polynomials x 4 points x 3 '
                'steps; C->S: random d=3..6 systems, relaxation runs over c, image count, time step, initial string; non-trivial = A not '
                'diagonal or d >= 2 / polynomial with a cubic term / every relaxation; distinct by input')
    ctx.trusted = ['TLC', 'float64 (results compared at 1e-13 relative to the exact rational)']
    r = tlc.must_pass(tlc.run('MC_Integrators', 'Integ_ode.cfg' if quick else 'Integ_ode_thorough.cfg', workers=16, timeout=3000, heap='8g'), 'Integ_ode')
    ctx.add_tlc(r)
    rn = tlc.run('MC_Integrators', 'Integ_neg.cfg', workers=16, timeout=1800)
    tlc.must_fail(rn, 'Integ_neg', 'StagedIsTaylor')
    ctx.extra['negative_model_rejected'] = True
    ctx.exhaustive = True
    for c in r.cases:
        ctx.count()
        A = np.array(c['a'], dtype=float)
        y = np.array(c['y'], dtype=float)
        h = 2.0 ** -c['k']
        if c['d'] >= 2:
            ctx.nontriv(('ode', json.dumps(c['a']), tuple(c['y']), c['k']))
        rate = lambda v: v @ A.T
        rate_kw = lambda v, M=None, shift=0.0: v @ M.T + shift          # the rate law takes its parameters through the integrator's **kwargs
        for name, fn, key in (('euler', euler, 'euler'), ('rungekutta', rungekutta, 'rk')):
            try:
                got = np.atleast_1d(fn(rate, y.copy(), h))
                gkw = np.atleast_1d(fn(rate_kw, y.copy(), h, M=A, shift=0.0))
                # the caller's vector is left as it was (the same y is stepped again below), and whole-number y may come as integers or a list
                ysame = y.copy()
                g1_ = np.atleast_1d(fn(rate, ysame, h))
                g2_ = np.atleast_1d(fn(rate, ysame, h))
                if not np.array_equal(ysame, y) or not np.array_equal(g1_, got) or not np.array_equal(g2_, got):
                    ctx.violation('%s step modifies the vector passed to it (a second step from the same y differs)' % name,
                                  'A=%s y=%s h=%s first %s second %s' % (c['a'], c['y'], h, g1_.tolist(), g2_.tolist()), c)
                if np.array_equal(y, np.rint(y)):
                    for nm_, yi in (('integer array', np.rint(y).astype(np.int64)), ('list of ints', [int(v) for v in np.rint(y)])):
                        gi_ = np.atleast_1d(np.asarray(fn(rate, yi, h), dtype=float))
                        if not np.allclose(gi_, got, rtol=1e-13, atol=1e-13):
                            ctx.violation('%s step from a vector given as %s is not the step from the same float vector' % (name, nm_.split()[0]),
                                          'A=%s y=%s h=%s got %s expected %s' % (c['a'], c['y'], h, gi_.tolist(), got.tolist()), c)
                if not np.array_equal(got, gkw):
                    ctx.violation('%s step differs when the rate law receives its parameters through the keyword pass-through' % name,
                                  'A=%s y=%s h=%s got %s and %s' % (c['a'], c['y'], h, got.tolist(), gkw.tolist()), c)
            except Exception as e:
                ctx.violation('%s raised %s' % (name, excname(e)), repr(e)[:200], c)
                continue
            want = np.array([fr(q) for q in c[key]])
            if not np.allclose(got, want, rtol=1e-13, atol=1e-13):
                ctx.violation('%s step is not the degree-%d Taylor polynomial of exp(hA) y' % (name, 1 if key == 'euler' else 4),
                              'A=%s y=%s h=%s got %s expected %s' % (c['a'], c['y'], h, got.tolist(), want.tolist()), c)
        ctx.traces += 1
    ctx.sample({'kind': 'S->C ode case', **[c for c in r.cases if c['d'] == 2][11]})
    # ---- gradient ----------------------------------------------------------------------------------------------
    rg = tlc.must_pass(tlc.run('MC_Integrators', 'Integ_grad.cfg', workers=4, timeout=3000), 'Integ_grad')
    ctx.add_tlc(rg)
    for c in rg.cases:
        ctx.count()
        mon = c['poly']
        if any(3 in m['e'] for m in mon):
            ctx.nontriv(('grad', json.dumps(mon), tuple(c['x']), c['k']))

        def f(X, mon=mon):
            X = np.asarray(X, dtype=float)
            out = 0.0
            for m in mon:
                out = out + m['c'] * X[..., 0] ** m['e'][0] * X[..., 1] ** m['e'][1] * X[..., 2] ** m['e'][2]
            return out
        h = 2.0 ** -c['k']
        want = np.array([fr(q) for q in c['cd']])
        try:
            g1 = central_difference(f, np.array(c['x'], dtype=float), shift=h)
            g2 = central_difference(f, np.array([c['x'], c['x']], dtype=float), shift=h)
        except Exception as e:
            ctx.violation('central_difference raised %s' % excname(e), repr(e)[:200], c)
            continue
        if not np.allclose(g1, want, rtol=1e-9, atol=1e-9) or not np.allclose(g2, [want, want], rtol=1e-9, atol=1e-9):
            ctx.violation('central difference is not grad + h^2 * cubic coefficient (second order)', 'got %s expected %s' % (g1.tolist(), want.tolist()), c)
        # the same point given with an integer dtype (array and list) when its coordinates are whole numbers
        if all(float(v) == int(v) for v in c['x']):
            for nm, arg in (('integer array', np.array([int(v) for v in c['x']])), ('list of ints', [int(v) for v in c['x']])):
                try:
                    gi = central_difference(f, arg, shift=h)
                except Exception as e:
                    ctx.violation('central_difference raised %s for a point given as %s' % (excname(e), nm), repr(e)[:200], c)
                    continue
                if not np.allclose(np.asarray(gi, dtype=float), want, rtol=1e-9, atol=1e-9):
                    ctx.violation('central difference at a point given as %s is not grad + h^2 * cubic coefficient' % nm.split()[0],
                                  'got %s expected %s' % (np.asarray(gi).tolist(), want.tolist()), c)
        # the same polynomial restricted to its first one / two variables (a function of ONE variable has a final axis of length 1)
        for nd in (1, 2):
            rest = np.array(c['x'][nd:], dtype=float)
            fr_ = lambda X, nd=nd, rest=rest: f(np.concatenate([np.asarray(X, dtype=float), np.broadcast_to(rest, np.shape(X)[:-1] + (3 - nd,))], axis=-1))
            try:
                gd = central_difference(fr_, np.array(c['x'][:nd], dtype=float), shift=h)
                gd2 = central_difference(fr_, np.array([c['x'][:nd], c['x'][:nd]], dtype=float), shift=h)
            except Exception as e:
                ctx.violation('central_difference raised %s for a function of %d variable(s)' % (excname(e), nd), repr(e)[:200], c)
                continue
            if np.shape(gd) != (nd,) or not np.allclose(gd, want[:nd], rtol=1e-9, atol=1e-9) or not np.allclose(gd2, [want[:nd], want[:nd]], rtol=1e-9, atol=1e-9):
                ctx.violation('central difference of a function of %d variable(s) is not grad + h^2 * cubic coefficient' % nd,
                              'got %s expected %s' % (np.asarray(gd).tolist(), want[:nd].tolist()), c)
        ctx.traces += 1
    ctx.sample({'kind': 'S->C gradient case', **rg.cases[3]})
    # the same expectations on arrays of points with two leading axes (square and rectangular grids of DIFFERENT points)
    groups = {}
    for c in rg.cases:
        groups.setdefault((json.dumps(c['poly']), c['k']), []).append(c)
    for (pj, k), cs in groups.items():
        if len(cs) < 4:
            continue
        cs = cs[:4]
        mon = json.loads(pj)

        def f(X, mon=mon):
            X = np.asarray(X, dtype=float)
            out = 0.0
            for m in mon:
                out = out + m['c'] * X[..., 0] ** m['e'][0] * X[..., 1] ** m['e'][1] * X[..., 2] ** m['e'][2]
            return out
        pts = np.array([c['x'] for c in cs], dtype=float)
        want = np.array([[fr(q) for q in c['cd']] for c in cs])
        for shp in ((2, 2), (1, 4), (4, 1)):
            ctx.count()
            try:
                g = central_difference(f, pts.reshape(shp + (3,)), shift=2.0 ** -k)
            except Exception as e:
                ctx.violation('central_difference raised %s on a grid of points' % excname(e), repr(e)[:200])
                continue
            if np.shape(g) != shp + (3,):
                ctx.violation('central difference changes the leading shape of a grid of points', '%s -> %s' % (shp + (3,), np.shape(g)))
            elif not np.allclose(g, want.reshape(shp + (3,)), rtol=1e-9, atol=1e-9):
                ctx.violation('central difference mixes up the points of a grid with two leading axes', 'shape %s' % (shp + (3,),))
            ctx.nontriv(('gradgrid', pj, k, shp))
    # ---- C->S: higher-dimensional steps -------------------------------------------------------------------------------
    rng = np.random.default_rng(ctx.seed)
    recs = []
    for i in range(150 if quick else 3000):
        d = int(rng.integers(3, 7))
        A = rng.integers(-2, 3, (d, d))
        y = rng.integers(-2, 3, d)
        k = int(rng.integers(1, 3))
        h = 2.0 ** -k
        rate = lambda v: v @ A.T.astype(float)
        try:
            e = euler(rate, y.astype(float), h) * 2 ** k
            rk = rungekutta(rate, y.astype(float), h) * 24 * 16 ** k
        except Exception as ex:
            ctx.violation('integrator raised %s' % excname(ex), repr(ex)[:200])
            continue
        ei, rki = np.rint(e), np.rint(rk)
        ok = bool(np.abs(e - ei).max() < 1e-7 and np.abs(rk - rki).max() < 1e-6)
        recs.append({'ev': 'step', 'a': A.tolist(), 'y': y.tolist(), 'k': k, 'euler': ei.astype(int).tolist(), 'rk': rki.astype(int).tolist(), 'ongrid': ok})
    # ---- C->S: relaxation -----------------------------------------------------------------------------------------------
    S = 1 << 20
    runs = []
    for c2 in (1.0, 2.0, 0.5):
        for nimg in (10, 16):
            for bent in (False, True):
                runs.append((c2, nimg, bent))
    if quick:
        runs = runs[:6]
    runs = [r + (1.0,) for r in runs]
    # stiff members of the family (energy scaled by 250): the stable time step is far below the path's default one, so every phase
    # of relax() has to use the step it was given
    runs += [(1.0, 5, False, -1.0), (2.0, 7, True, -1.0)]          # stiff = -1 marks: short string, tolerance=0 (never stop early), tight acceptance
    runs += [(1.0, 10, True, 250.0)] if quick else [(1.0, 10, True, 250.0), (2.0, 16, False, 400.0), (0.5, 10, False, 250.0)]
    runs = [r + (1.0,) for r in runs]
    # the same surface on a length scale of 2^-16 (coordinates of order 1e-5): only the finite-difference step given at construction
    # (1e-6 of that scale) is adequate, so every path object handed back by step() / relax() has to keep it
    runs += [(1.0, 11, True, 1.0, 2.0 ** -16)] if quick else [(1.0, 11, True, 1.0, 2.0 ** -16), (2.0, 15, False, 1.0, 2.0 ** -16)]
    for ri, (c2, nimg, bent, stiff, Ls) in enumerate(runs):
        zero_tol = stiff < 0
        stiff = abs(stiff)
        def energy(X, c2=c2, stiff=stiff, Ls=Ls):
            X = np.asarray(X) / Ls
            return stiff * ((X[..., 0] ** 2 - 1) ** 2 + c2 * X[..., 1] ** 2)
        dt1, dt2 = (0.01 if ri % 3 else 0.02, 0.01) if stiff == 1.0 else (1.5 / (8 * stiff), 1.5 / (8 * stiff))
        dt1, dt2 = dt1 * Ls * Ls, dt2 * Ls * Ls
        t = np.linspace(0, 1, nimg)
        start = np.array([-1.3, 0.4])
        end = np.array([0.9, -0.3])
        coord = start + np.outer(t, end - start)
        if bent:
            coord[:, 1] += 0.6 * np.sin(np.pi * t)
        coord = coord * Ls
        explicit = bool(ri % 2) or Ls != 1.0
        tag = {'c': c2, 'nimg': nimg, 'bent': bent, 'stiff': stiff, 'tolerance0': zero_tol, 'length_scale': Ls, 'options': 'explicit' if explicit else 'default'}
        try:
            if not explicit:
                path = mep.create_path(coord, energy, style='ISM')
            else:
                path = mep.create_path(coord, energy, style='ISM', gradientfxn='cdiff', gradientkwargs={'shift': 1e-6 * Ls}, integratorfxn='rk')
            e0, e1 = [], []
            cur = path
            for blk in range(6):
                cur = cur.relax(relaxsteps=40 if blk < 3 else 300, climbsteps=0, timestep=dt1, verbose=False, **({'tolerance': 0.0} if zero_tol else {}))
                en = cur.energy() / stiff
                e0.append(_cl(round(en[0] * S)))
                e1.append(_cl(round(en[-1] * S)))
            if ri % 2:
                fin = cur.relax(relaxsteps=0, climbsteps=1500, timestep=dt2, verbose=False)
            else:   # relaxation and climbing requested in ONE call; the relaxation phase ends by reaching its tolerance
                fin = cur.relax(relaxsteps=2000, climbsteps=1500 if not zero_tol else 6000, timestep=dt2, verbose=False, **({'tolerance': 0} if zero_tol else {}))
            en = fin.energy() / stiff
            it = int(np.argmax(en))
            g = (fin.grad_energy(fin.coord[it:it + 1])[0] if hasattr(fin, 'grad_energy') else np.zeros(2)) / stiff * Ls
            recs.append({'ev': 'relax', 'tag': tag, 's': S, 'tol': S // 500 if not zero_tol else S // 50000, 'climb': True,
                         'end0': [_cl(round(x / Ls * S)) for x in fin.coord[0]], 'end1': [_cl(round(x / Ls * S)) for x in fin.coord[-1]],
                         'e0hist': e0, 'e1hist': e1, 'top': [_cl(round(x / Ls * S)) for x in fin.coord[it]], 'etop': _cl(round(en[it] * S)),
                         'gtop': _cl(round(float(np.linalg.norm(g)) * S)), 'arc': [_cl(round(x / Ls * S)) for x in fin.arccoord]})
        except Exception as ex:
            import traceback
            tb = traceback.extract_tb(ex.__traceback__)[-1]
            ctx.violation('string relaxation raised %s with %s constructor options' % (excname(ex), tag['options']),
                          repr(ex)[:200] + ' at %s:%s' % (tb.filename.split('/')[-1], tb.lineno), tag)
    for r_ in recs:
        ctx.count()
        ctx.nontriv((r_['ev'], json.dumps(r_.get('a', r_.get('tag'))), json.dumps(r_.get('y', 0))))
    ok, bads, st, tr = tlc.validate_traces('Integ_Trace', 'Integ_trace.cfg', recs, ctx.work, shards=16)
    ctx.states += st
    ctx.transitions += tr
    ctx.traces += ok
    ctx.extra['relaxations'] = sum(1 for r_ in recs if r_['ev'] == 'relax')
    for b in bads:
        rec = b['record']
        ctx.violation('%s: %s' % (rec['ev'], b['clause']), json.dumps(rec)[:1500], {'file': b['file'], 'line': b['l']})
    rl = [r_ for r_ in recs if r_['ev'] == 'relax']
    if rl:
        ctx.sample({'kind': 'C->S relaxation record', **rl[0]})


def replay(path):
    print(open(path).read()[:3000])
    return 0
