"""C04 -- supercells, re-oriented cells, centring conversions.  Spec: spec/Crystal.tla.

TLC enumerates the multiplier tuples (positive, negative, two-sided) and every integer vector set with entries in the
bound (singular ones included: they must be refused); the driver runs System.supersize / System.rotate(return_transform)
/ dump('conventional_to_primitive') / dump('primitive_to_conventional') on unit cells of every family, maps every result
atom back through the returned rotation into lattice coordinates of the original cell (integers) and Crystal!VerdictCrystal
(TLC) decides: count, volume, congruence with an original atom incl. type and property, equal multiplicity, no two atoms
congruent modulo the new cell, all atoms inside it, LAMMPS-compatible cell, proper rotation.
"""
import json

import numpy as np

from .. import tlc
from ..proj import to_int, excname
from ..ucells import ucells


def atoms_rec(ucell, dd, pos_in_old_frame, system):
    rel = ucell.box.position_cartesian_to_relative(pos_in_old_frame) * dd
    xi, ok = to_int(rel, 1, tol=1e-6)
    q = np.array(system.atoms.q if 'q' in system.atoms.prop() else np.zeros(system.natoms, dtype=int))
    if 'w' in system.atoms.prop():     # the vector property must still belong to the same atom as the scalar one
        badw = ~np.all(system.atoms.w == np.outer(q.astype(float), [1.0, -0.5, 0.25]), axis=1)
        q = np.where(badw, -1, q)
    else:
        q = np.full(system.natoms, -2)
    return [xi[k] + [int(system.atoms.atype[k]), int(q[k])] for k in range(system.natoms)], ok


def proper(T):
    T = np.asarray(T)
    return bool(np.allclose(T @ T.T, np.eye(3), atol=1e-9) and abs(np.linalg.det(T) - 1) < 1e-9)


def rotate_rec(am, name, uc, W, w4=None):
    ucell, basis, dd, setting = uc
    arg = np.array(w4) if w4 is not None else np.array(W)
    import zlib
    if zlib.crc32(json.dumps([name, W]).encode()) % 3 == 0:
        # integers to round-off, as they come out of np.linalg.inv or a (3,4)-index conversion: 2.9999999999999996, -0.9999999999999999
        arg = arg.astype(float) * (1 - 2.0 ** -53)
    new, T = ucell.rotate(arg, return_transform=True)
    pos_old = new.atoms.pos @ T                       # the returned rotation, nothing else
    atoms, ok = atoms_rec(ucell, dd, pos_old, new)
    org, oko = to_int(ucell.box.position_cartesian_to_relative(new.box.origin @ T) * dd, 1, tol=1e-6)
    ok = ok and oko
    cell = (new.box.vects @ T) @ np.linalg.inv(ucell.box.vects)
    ci, okc = to_int(cell, 1, tol=1e-6)
    return {'ev': 'rotate', 'ucell': name, 'w': [list(map(int, r)) for r in W], 'atoms': atoms, 'basis': basis, 'dd': dd, 'ongrid': ok and okc,
            'proper': proper(T), 'lammps': bool(new.box.is_lammps_norm()), 'cell': ci, 'org': org,
            'vol': int(round(new.box.volume / ucell.box.volume))}


def run(ctx):
    import atomman as am
    quick = ctx.tier == 'quick'
    ctx.rule = ('TLC-enumerated multiplier tuples x unit cells and integer vector sets (entries -1..1, thorough -2..2 with |det|<=6) x '
                'unit cells of every family; non-trivial = negative/two-sided multiplier, |det| > 1 or non-diagonal vectors, '
                'centred settings; distinct by (unit cell, case)')
    ctx.trusted = ['TLC', 'harness/proj.to_int', 'numpy.linalg.inv in the projection onto lattice coordinates']
    rng = np.random.default_rng(ctx.seed)
    U = ucells(am)
    UO = ucells(am, origin=True)
    names = sorted(U)
    recs = []
    refus = 0
    rs = tlc.must_pass(tlc.run('MC_Crystal', 'Crystal_sup.cfg', workers=16, timeout=3000), 'Crystal_sup')
    ctx.add_tlc(rs)
    rr = tlc.must_pass(tlc.run('MC_Crystal', 'Crystal_rot.cfg' if quick else 'Crystal_rot_thorough.cfg', workers=16, timeout=6000, heap='8g'), 'Crystal_rot')
    ctx.add_tlc(rr)
    ctx.exhaustive = not quick
    sup = rs.cases
    rot = rr.cases
    if quick:
        sup = [sup[i] for i in sorted(rng.permutation(len(sup))[:250])]
        rot = [rot[i] for i in sorted(rng.permutation(len(rot))[:1500])]
    elif len(rot) > 60000:
        rot = [rot[i] for i in sorted(rng.permutation(len(rot))[:60000])]
    # ---- supersize --------------------------------------------------------------------------------------
    for k, c in enumerate(sup):
        for name in (names[k % len(names)], names[(3 * k + 1) % len(names)]):
            ucell, basis, dd, setting = (UO if k % 2 else U)[name]
            args = [(m['hi'] if m['lo'] == 0 else m['lo']) if m['f'] == 'int' else (m['lo'], m['hi']) for m in c['m']]
            rngs = [[m['lo'], m['hi']] for m in c['m']]
            if any(a == 0 or a == (0, 0) for a in args):
                continue
            try:
                snap = ucell.atoms.pos.copy()
                new = ucell.supersize(*args)
                atoms, ok = atoms_rec(ucell, dd, new.atoms.pos, new)
                cell, okc = to_int(new.box.vects @ np.linalg.inv(ucell.box.vects), 1, tol=1e-6)
                org, oko = to_int(ucell.box.position_cartesian_to_relative(new.box.origin) * dd, 1, tol=1e-6)
                if not np.array_equal(snap, ucell.atoms.pos):
                    ctx.violation('supersize modified its input', name)
                recs.append({'ev': 'supersize', 'ucell': name, 'args': str(args), 'rng': rngs, 'atoms': atoms, 'basis': basis, 'dd': dd,
                             'ongrid': ok and okc and oko, 'cell': cell, 'org': org})
            except Exception as e:
                ctx.violation('supersize raised %s on valid multipliers' % excname(e), repr(e) + ' ' + str(args), {'ucell': name, 'm': c['m']})
    # ---- rotate -----------------------------------------------------------------------------------------
    for k, c in enumerate(rot):
        name = names[k % len(names)]
        uc = (UO if (k // len(names)) % 2 else U)[name]
        W = c['w']
        try:
            r_ = rotate_rec(am, name, uc, W)
            if c['det'] == 0:
                ctx.violation('rotate accepted parallel/planar vectors', str(W), c)
            else:
                recs.append(r_)
        except ValueError as e:
            if c['det'] == 0:
                refus += 1
            else:
                ctx.violation('rotate refused a valid integer vector set (%s)' % str(e).split(':')[0][:40], str(W) + ' ' + name + ' ' + str(e)[:200], c)
        except Exception as e:
            ctx.violation('rotate raised %s' % excname(e), str(W) + ' ' + repr(e)[:200], c)
    # the identity (no re-orientation asked for) and a cyclic relabelling on EVERY cell whose box is not anchored at the origin: the crystal
    # stays where it is whichever vectors are requested
    for name in names:
        for W in ([[1, 0, 0], [0, 1, 0], [0, 0, 1]], [[0, 1, 0], [0, 0, 1], [1, 0, 0]]):
            try:
                recs.append(rotate_rec(am, name, UO[name], W))
            except Exception as e:
                ctx.violation('rotate raised %s' % excname(e), str(W) + ' ' + name + ' (cell with non-zero origin) ' + repr(e)[:200])
    # the same requests on cells that are NOT in the LAMMPS orientation (axes cyclically relabelled): the returned rotation is then not
    # the identity even for identity vectors, and every atom still maps back through it
    for name in ('ortA', 'mono', 'tri1', 'B2'):
        uc0, basis, dd, setting = U[name]
        Pc = np.array([[0.0, 1, 0], [0, 0, 1], [1, 0, 0]])
        turned = am.System(atoms=am.Atoms(atype=uc0.atoms.atype, pos=uc0.atoms.pos @ Pc, q=uc0.atoms.q, w=uc0.atoms.w),
                           box=am.Box(vects=uc0.box.vects @ Pc, origin=uc0.box.origin @ Pc), symbols=uc0.symbols)
        for W in ([[1, 0, 0], [0, 1, 0], [0, 0, 1]], [[1, 1, 0], [-1, 1, 0], [0, 0, 1]]):
            try:
                recs.append(rotate_rec(am, name + '(turned)', (turned, basis, dd, setting), W))
            except Exception as e:
                ctx.violation('rotate raised %s' % excname(e), str(W) + ' ' + name + ' (cell not in LAMMPS orientation) ' + repr(e)[:200])
    # hexagonal 4-index input and non-integer refusal
    for W4 in ([[2, -1, -1, 0], [-1, 2, -1, 0], [0, 0, 0, 1]], [[1, 0, -1, 0], [-1, 2, -1, 0], [0, 0, 0, 1]], [[1, 1, -2, 0], [-1, 1, 0, 0], [0, 0, 0, 2]]):
        W = [[r[0] - r[2], r[1] - r[2], r[3]] for r in W4]
        try:
            recs.append(rotate_rec(am, 'hcp', U['hcp'], W, w4=W4))
        except Exception as e:
            ctx.violation('rotate raised %s on Miller-Bravais vectors' % excname(e), repr(e)[:200], W4)
    try:
        U['fcc'][0].rotate([[1, 0.5, 0], [0, 1, 0], [0, 0, 1]])
        ctx.violation('rotate accepted non-integer indices', '')
    except ValueError:
        refus += 1
    # ---- centring conversions --------------------------------------------------------------------------------
    NP = {'p': 1, 'a': 2, 'b': 2, 'c': 2, 'i': 2, 'f': 4, 't1': 3, 't2': 3}
    for name in names:
        for uc in (U[name], UO[name]):
            ucell, basis, dd, setting = uc
            st = setting or 'p'
            try:
                prim, T = ucell.dump('conventional_to_primitive', setting=st, return_transform=True, check_basis=(setting is not None))
                pos_old = prim.atoms.pos @ T
                patoms, ok1 = atoms_rec(ucell, dd, pos_old, prim)
                pcell6, ok2 = to_int((prim.box.vects @ T) @ np.linalg.inv(ucell.box.vects) * 6, 1, tol=1e-6)
                back, T2 = prim.dump('primitive_to_conventional', setting=st, return_transform=True)
                pos_old2 = (back.atoms.pos @ T2) @ T
                batoms, ok3 = atoms_rec(ucell, dd, pos_old2, back)

                def gram(b):
                    V = b.vects
                    g = V @ V.T
                    return [int(round(x * 1e6)) for x in (g[0, 0], g[1, 1], g[2, 2], g[1, 2], g[0, 2], g[0, 1])]
                porg6, ok4 = to_int(ucell.box.position_cartesian_to_relative(prim.box.origin @ T) * dd * 6, 1, tol=1e-6)
                brel = back.atoms_prop('pos', scale=True)
                recs.append({'ev': 'centring', 'ucell': name, 'setting': st, 'patoms': patoms, 'batoms': batoms, 'basis': basis, 'dd': dd,
                             'ongrid': ok1 and ok2 and ok3 and ok4, 'pcell6': pcell6, 'npts': NP[st], 'gram': gram(ucell.box), 'bgram': gram(back.box),
                             'porg6': porg6, 'pproper': proper(T) and proper(T2), 'plammps': bool(prim.box.is_lammps_norm() and back.box.is_lammps_norm()),
                             'binside': bool((brel > -1e-9).all() and (brel < 1 + 1e-9).all()),
                             # "undo one another": the two returned rotations compose to the identity and the cell comes back as it was
                             'undone': bool(np.allclose(np.asarray(T2) @ np.asarray(T), np.identity(3), atol=1e-9) and np.allclose(back.box.vects, ucell.box.vects, atol=1e-9))})
            except Exception as e:
                ctx.violation('centring conversion [%s] raised %s' % (st, excname(e)), name + ' ' + repr(e)[:300], name)
    ctx.extra['documented_refusals_accepted'] = refus
    for r_ in recs:
        ctx.count()
        key = (r_['ev'], r_['ucell'], r_.get('args') or json.dumps(r_.get('w', r_.get('setting'))))
        if r_['ev'] == 'supersize' and ('-' in r_['args'] or '(' in r_['args']):
            ctx.nontriv(key)
        elif r_['ev'] == 'rotate' and (abs(r_['vol']) > 1 or any(r_['w'][i][j] for i in range(3) for j in range(3) if i != j)):
            ctx.nontriv(key)
        elif r_['ev'] == 'centring' and r_['setting'] != 'p':
            ctx.nontriv(key)
    ok, bads, st_, tr = tlc.validate_traces('Crystal_Trace', 'Crystal_trace.cfg', recs, ctx.work, shards=16, timeout=7200)
    ctx.states += st_
    ctx.transitions += tr
    ctx.traces += ok
    ctx.extra['records'] = {e: sum(1 for r_ in recs if r_['ev'] == e) for e in ('supersize', 'rotate', 'centring')}
    for b in bads:
        rec = b['record']
        short = {k: rec[k] for k in rec if k not in ('atoms', 'patoms', 'batoms')}
        ctx.violation('%s: %s' % (rec['ev'], b['clause']), json.dumps(short, default=tlc._np)[:1200], {'file': b['file'], 'line': b['l']})
    from .. import umbrella
    import atomman as _am
    umbrella.run(ctx, _am, 'C04')      # cross-module histories of spec/Atomman.tla (only the steps this property owns are reported here)
    small = [r_ for r_ in recs if r_['ev'] == 'rotate' and len(r_['atoms']) <= 6 and r_['vol'] > 1]
    if small:
        ctx.sample({'kind': 'C->S rotate record', **small[0]})
    cen = [r_ for r_ in recs if r_['ev'] == 'centring' and r_['setting'] == 'i']
    if cen:
        ctx.sample({'kind': 'C->S centring record', **cen[0]})


def replay(path):
    print(open(path).read()[:3000])
    return 0
