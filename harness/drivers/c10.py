"""C10 -- JSON/XML data-model round trip.  Spec: spec/DataModel.tla.

S->C decides: TLC enumerates every (object, encoding, working units at write, working units at read) history; the driver builds
the concrete object (dyadic values; tilted cell with non-zero origin; several types; int/float/str per-atom properties of rank
1-3; storage units incl. 'scaled' and None), writes it to the data model under the first configuration, encodes it (tree /
JSON text / XML text), resets the working units, reads it back and compares the abstract content (shape, entries, dtype kind,
cell, origin, pbc, symbols, masses, every property) and -- for quantities stored with a unit -- the physical value expressed
in that unit.
"""
import json

import numpy as np

from .. import tlc
from ..proj import excname

CFG = {'SI': dict(seed='SI'), 'metal': dict(length='angstrom', mass='amu', energy='eV', charge='e'), 'seed7': dict(seed=7),
       'nm_g_fs': dict(length='nm', mass='g', time='fs')}


def ufac(uc, unit):
    """value of one <unit> in the working units in force, from the unit table only"""
    u = uc.unit
    return {'angstrom': lambda: u['angstrom'], 'nm': lambda: u['nm'], 'GPa': lambda: u['GPa'], 'eV/angstrom^3': lambda: u['eV'] / u['angstrom'] ** 3,
            'angstrom/ps': lambda: u['angstrom'] / u['ps'], 'e': lambda: u['e']}[unit]()


def encode_decode(DM, model, enc):
    if enc == 'tree':
        return model
    if enc == 'json':
        return DM(model.json())
    return DM(model.xml())


def mkvalue(shape, kind):
    n = int(np.prod(shape)) if shape else 1
    a = (np.arange(n) * 3 - 4)
    if kind == 'float':
        a = a * 0.25 + 0.5
    a = a.reshape(shape) if shape else a.reshape(())
    return a if kind == 'float' else a.astype(int)


def kind_of(arr):
    k = np.asarray(arr).dtype.kind
    return {'i': 'int', 'u': 'int', 'f': 'float', 'U': 'str', 'O': 'str', 'S': 'str'}.get(k, k)


def replay_case(am, uc, DM, h):
    w, rs, rd = h
    ob = w['obj']
    enc = w['enc']
    what = ob['what']
    tag = '%s[%s]' % (what, enc)
    try:
        uc.reset_units(**CFG[w['cfg']])
        if what == 'value':
            unit = None if ob['unit'] == 'None' else ob['unit']
            val = mkvalue(tuple(ob['shape']), ob['kind'])
            phys = np.array(val, dtype=float)
            internal = uc.set_in_units(val, unit) if unit else val
            arg = internal if ob['shape'] or unit else (float(internal) if ob['kind'] == 'float' else int(internal))
            if len(ob['shape']) >= 2:
                # the same values in another memory layout (Fortran order, or a transposed view of the transposed copy): a value is its
                # entries by index, not its buffer
                import zlib
                lay = zlib.crc32(json.dumps(ob, sort_keys=True).encode()) % 3
                if lay == 1:
                    arg = np.asfortranarray(internal)
                elif lay == 2:
                    arg = np.ascontiguousarray(np.asarray(internal).T).T
            if len(ob['shape']) == 1 and unit is None and (len(json.dumps(ob)) % 2 == 0):
                arg = internal.tolist()
            model = DM([('quantity', uc.model(arg, unit))])
            model = encode_decode(DM, model, enc)
            uc.reset_units(**CFG[rs['cfg']])
            back = uc.value_unit(model['quantity'])
            again = uc.value_unit(model['quantity'])            # the same model object read a second time
            if np.shape(again) != np.shape(back) or not np.array_equal(np.asarray(again), np.asarray(back)):
                return ('value[%s]: a second read of the same model object differs from the first' % enc, 'shape %s then %s' % (np.shape(back), np.shape(again)))
            shp = tuple(np.shape(back))
            if shp != tuple(ob['shape']):
                return ('value[%s]: shape %s read back as %s' % (enc, tuple(ob['shape']), shp), 'unit=%s kind=%s' % (unit, ob['kind']))
            got = (np.asarray(back, dtype=float) / ufac(uc, unit)) if unit else np.asarray(back, dtype=float)
            if not np.allclose(got, phys, rtol=1e-12, atol=1e-12):
                return ('value[%s]: physical value changed (unit %s)' % (enc, unit), 'got %s expected %s' % (np.ravel(got)[:4], np.ravel(phys)[:4]))
            if unit is None and kind_of(back) != ob['kind']:
                return ('value[%s]: dtype kind %s read back as %s' % (enc, ob['kind'], kind_of(back)), str(ob))
            return None
        if what == 'box':
            box = am.Box(vects=uc.set_in_units(np.array([[3.0, 0, 0], [0.5, 4.0, 0], [-0.25, 0.75, 5.0]]), 'angstrom'), origin=uc.set_in_units([1.0, -2.0, 0.5], 'angstrom'))
            model = encode_decode(DM, box.model(length_unit=ob['unit']), enc)
            uc.reset_units(**CFG[rs['cfg']])
            b2 = am.Box(model=model)
            if not np.allclose(b2.vects / ufac(uc, 'angstrom'), [[3.0, 0, 0], [0.5, 4.0, 0], [-0.25, 0.75, 5.0]], rtol=1e-12, atol=1e-12) or \
               not np.allclose(b2.origin / ufac(uc, 'angstrom'), [1.0, -2.0, 0.5], rtol=1e-12, atol=1e-12):
                return ('box[%s]: cell or origin changed' % enc, '')
            # read into an EXISTING Box that has already been used with another cell (state carried on the object)
            b3 = am.Box(vects=uc.set_in_units(np.array([[2.0, 0, 0], [0, 7.0, 0], [0, 0, 3.5]]), 'angstrom'))
            b3.reciprocal_vects, b3.inside(np.zeros((2, 3))), b3.position_cartesian_to_relative(np.ones((2, 3)))
            b3.model(model=model)
            pts = np.array([[0.25, 0.5, 0.125], [1.5, -0.75, 0.875]])
            cart = uc.set_in_units(pts @ np.array([[3.0, 0, 0], [0.5, 4.0, 0], [-0.25, 0.75, 5.0]]) + np.array([1.0, -2.0, 0.5]), 'angstrom')
            if not np.allclose(b3.vects, b2.vects, rtol=1e-12, atol=1e-12) or not np.allclose(b3.origin, b2.origin, rtol=1e-12, atol=1e-12):
                return ('box[%s]: read into an existing Box: cell or origin differ' % enc, '')
            if not np.allclose(b3.position_cartesian_to_relative(cart), pts, rtol=0, atol=1e-10) or \
               not np.allclose(b3.reciprocal_vects @ b3.vects.T, np.identity(3), rtol=0, atol=1e-10) or \
               list(b3.inside(cart)) != [True, False]:
                return ('box[%s]: read into an existing Box: coordinate maps still belong to the previous cell' % enc, '')
            return None
        if what == 'elastic':
            kw = {'cubic': dict(C11=250.0, C12=150.0, C44=120.0), 'hexagonal': dict(C11=160.0, C33=180.0, C12=90.0, C13=70.0, C44=45.0),
                  'isotropic': dict(C11=250.0, C12=110.0)}.get(ob['system'])
            if kw is None:
                C0 = np.array([[410.0 if i == j else 7.0 * min(i, j) + max(i, j) ** 2 + 8 for j in range(6)] for i in range(6)])
            else:
                C0 = am.ElasticConstants(**kw).Cij
            ec = am.ElasticConstants(Cij=uc.set_in_units(C0, 'GPa'))
            model = encode_decode(DM, ec.model(unit=ob['unit'], crystal_system=ob['system']), enc)
            uc.reset_units(**CFG[rs['cfg']])
            e2 = am.ElasticConstants(model=model)
            if not np.allclose(e2.Cij / ufac(uc, 'GPa'), C0, rtol=1e-11, atol=1e-9):
                return ('elastic[%s,%s]: stiffness changed' % (enc, ob['system']), 'max diff %r' % np.abs(uc.get_in_units(e2.Cij, 'GPa') - C0).max())
            # read into an EXISTING object whose derived forms have been evaluated for other constants
            e3 = am.ElasticConstants(C11=uc.set_in_units(100.0, 'GPa'), C12=uc.set_in_units(60.0, 'GPa'), C44=uc.set_in_units(30.0, 'GPa'))
            e3.Sij, e3.Cijkl, e3.Sijkl, e3.Cij9
            e3.model(model=model)
            if not np.allclose(e3.Cij, e2.Cij, rtol=1e-12) or not np.allclose(e3.Sij @ e3.Cij, np.identity(6), rtol=0, atol=1e-9) or \
               not np.allclose(e3.Cijkl, e2.Cijkl, rtol=1e-12) or not np.allclose(e3.Sijkl, e2.Sijkl, rtol=1e-9):
                return ('elastic[%s,%s]: read into an existing object: constants or derived forms differ' % (enc, ob['system']), '')
            return None
        # ---- atoms / system ---------------------------------------------------------------------------------
        n = ob.get('n', 2)
        nt = ob.get('ntypes', 2)
        atype = np.array([1 + (i % nt) for i in range(n)])
        V = np.array([[3.0, 0, 0], [0.5, 4.0, 0], [-0.25, 0.75, 5.0]])
        o = np.array([1.0, -2.0, 0.5])
        rel = np.array([[0.25 * i, 0.5, 0.125 * (i + 1)] for i in range(n)])
        # atoms need not be inside the cell: one on the upper face, one outside below and one far above along periodic directions
        for k_, r_ in enumerate(([1.0, 0.5, 0.25], [-0.75, 0.5, 1.5], [2.25, 0.25, -1.0])):
            if k_ < n and n >= 2:
                rel[n - 1 - k_] = r_
        posA = rel @ V + o
        props = {}
        punit = {'atype': None, 'pos': None if ob['posunit'] == 'None' else ob['posunit']}
        phys = {}
        for p in ob.get('props', []):
            nm = p['name']
            if p['kind'] == 'str':
                arr = np.array(['a%d' % i for i in range(n)])
            elif p['rank'] == 1:
                arr = np.arange(n) * 2 - 1
            elif p['rank'] == 2:
                arr = (np.arange(n * 3).reshape(n, 3) - 2) * 0.5
            else:
                arr = (np.arange(n * 9).reshape(n, 3, 3) - 7) * 0.25
            if nm == 'spos':
                arr = rel + 0.125
            phys[nm] = arr
            u = None if p['unit'] == 'None' else p['unit']
            punit[nm] = u
            if u == 'scaled':
                props[nm] = uc.set_in_units(arr @ V + o, 'angstrom')       # a position-like property, stored box-relative
            elif u:
                props[nm] = uc.set_in_units(arr, u)
            else:
                props[nm] = arr
        atoms = am.Atoms(atype=atype, pos=uc.set_in_units(posA, 'angstrom'), **props)
        if what == 'atoms':
            model = encode_decode(DM, atoms.model(prop_unit=dict(punit)), enc)
            uc.reset_units(**CFG[rs['cfg']])
            a2 = am.Atoms(model=model)
            if a2.natoms != n or not np.array_equal(a2.atype, atype) or not np.allclose(a2.pos / ufac(uc, 'angstrom'), posA, rtol=1e-12, atol=1e-12):
                return ('atoms[%s]: atype or pos changed (pos unit %s)' % (enc, ob['posunit']), '')
            return None
        box = am.Box(vects=uc.set_in_units(V, 'angstrom'), origin=uc.set_in_units(o, 'angstrom'))
        symbols = {'all': ['Al', 'Cu'][:nt], 'none': None, 'first': ['Al']}[ob['symbols']]
        masses = {'all': [26.98, 63.55][:nt], 'none': None, 'notfirst': ([None, 63.55][:nt] if nt > 1 else [26.98])}[ob['masses']]
        if masses is not None and symbols is None:
            symbols = [None] * nt
        if masses is not None and symbols is not None and len(symbols) < nt:
            symbols = list(symbols) + [None] * (nt - len(symbols))
        system = am.System(atoms=atoms, box=box, pbc=[True, False, True], symbols=symbols, masses=masses)
        wsym, wmas = tuple(system.symbols), tuple(system.masses)
        model = encode_decode(DM, system.model(box_unit=ob['boxunit'], prop_unit=dict(punit)), enc)
        uc.reset_units(**CFG[rs['cfg']])
        s2 = am.System(model=model)
        sub = 'system[%s]' % enc
        # the SAME model object read a second time (reading does not consume it)
        s3 = am.System(model=model)
        if s3.natoms != s2.natoms or not np.array_equal(s3.atoms.pos, s2.atoms.pos) or sorted(s3.atoms.prop()) != sorted(s2.atoms.prop()) or \
                any(np.shape(s3.atoms.view[k_]) != np.shape(s2.atoms.view[k_]) for k_ in s2.atoms.prop()):
            return (sub + ': a second read of the same model object differs from the first', '')
        if s2.natoms != n:
            return (sub + ': natoms changed', '%d -> %d' % (n, s2.natoms))
        if not np.allclose(s2.box.vects / ufac(uc, 'angstrom'), V, rtol=1e-12, atol=1e-12) or not np.allclose(s2.box.origin / ufac(uc, 'angstrom'), o, rtol=1e-12, atol=1e-12):
            return (sub + ': cell or origin changed (box unit %s)' % ob['boxunit'], '')
        if [bool(x) for x in s2.pbc] != [True, False, True]:
            return (sub + ': periodic flags changed', str(s2.pbc))
        if tuple(s2.symbols) != wsym:
            return (sub + ': symbols changed (%s given)' % ob['symbols'], '%s -> %s' % (wsym, tuple(s2.symbols)))
        m2 = tuple(s2.masses)
        if len(m2) != len(wmas) or any((a is None) != (b is None) or (a is not None and abs(a - b) > 1e-12) for a, b in zip(wmas, m2)):
            return (sub + ': masses changed (%s given)' % ob['masses'], '%s -> %s' % (wmas, m2))
        if not np.array_equal(s2.atoms.atype, atype):
            return (sub + ': atom types changed', '')
        if not np.allclose(s2.atoms.pos / ufac(uc, 'angstrom'), posA, rtol=1e-12, atol=1e-12):
            return (sub + ': positions changed (pos unit %s, box unit %s)' % (ob['posunit'], ob['boxunit']), '')
        for p in ob.get('props', []):
            nm = p['name']
            if nm not in s2.atoms.prop():
                return (sub + ': property %s lost' % nm, '')
            got = s2.atoms.view[nm]
            if np.shape(got) != np.shape(phys[nm]):
                return (sub + ': property %s shape %s read back as %s (natoms=%d)' % (nm, np.shape(phys[nm])[1:], np.shape(got)[1:], n), '')
            u = punit[nm]
            if p['kind'] == 'str':
                if [str(x) for x in got] != [str(x) for x in phys[nm]]:
                    return (sub + ': string property changed', '')
                continue
            if u == 'scaled':
                gv = s2.box.position_cartesian_to_relative(got)
            elif u:
                gv = np.asarray(got, dtype=float) / ufac(uc, u)
            else:
                gv = np.asarray(got, dtype=float)
                if kind_of(got) != p['kind']:
                    return (sub + ': property %s dtype kind %s read back as %s' % (nm, p['kind'], kind_of(got)), '')
            if not np.allclose(gv, phys[nm], rtol=1e-12, atol=1e-12):
                return (sub + ': property %s values changed (unit %s)' % (nm, u), '')
        return None
    except Exception as e:
        import traceback
        tb = traceback.extract_tb(e.__traceback__)[-1]
        shape = tuple(ob.get('shape', ())) if what == 'value' else ''
        return ('%s raised %s at %s:%s %s' % (tag, excname(e), tb.filename.split('/')[-1], tb.name,
                                            ('shape=%s unit=%s' % (shape, ob.get('unit'))) if what == 'value' else ('n=%s' % ob.get('n', ''))), repr(e)[:300])


def run(ctx):
    import atomman as am
    import atomman.unitconvert as uc
    from DataModelDict import DataModelDict as DM
    quick = ctx.tier == 'quick'
    ctx.rule = ('all (object, encoding, write cfg, read cfg) histories generated by TLC; values: 10 shapes x int/float x 4 units; systems: natoms '
                '1/3 x ntypes x symbols x masses x 4 property sets x pos unit x box unit (sampled in quick); non-trivial = text encoding or '
                'different configurations at write and read; distinct by case')
    ctx.trusted = ['TLC', 'DataModelDict json()/xml() as the encoders under test are part of the round trip']
    rng = np.random.default_rng(ctx.seed)
    try:
        for mode in ('value', 'other', 'system'):
            r = tlc.must_pass(tlc.run('MC_DataModel', 'DM_%s.cfg' % mode, workers=16, timeout=3000, heap='8g'), 'DM_' + mode)
            ctx.add_tlc(r)
            cases = r.cases
            if quick and mode == 'system':
                cases = [cases[i] for i in sorted(rng.permutation(len(cases))[:2500])]
            elif quick and mode == 'value':
                cases = [cases[i] for i in sorted(rng.permutation(len(cases))[:2000])]
            else:
                ctx.exhaustive = not quick
            for h in cases:
                ctx.count()
                if h[0]['enc'] != 'tree' or h[0]['cfg'] != h[1]['cfg']:
                    ctx.nontrivial_count += 1
                bad = replay_case(am, uc, DM, h)
                if bad:
                    ctx.violation(bad[0], bad[1], h)
                ctx.traces += 1
            ctx.sample({'kind': 'S->C history (%s)' % mode, 'steps': cases[len(cases) // 3]})
        from .. import umbrella
        uc.reset_units()
        umbrella.run(ctx, am, 'C10')      # cross-module histories of spec/Atomman.tla (data-model round trips inside histories)
    finally:
        uc.reset_units()


def replay(path):
    print(open(path).read()[:3000])
    return 0
