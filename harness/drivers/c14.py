"""C14 -- surface-oriented cells, free-surface systems, stacking-fault shifts.  Spec: spec/SurfaceBasis.tla.

TLC enumerates the (cell family, hkl, cut vector) space as cases; the driver runs free_surface_basis / FreeSurface /
StackingFault on every case and logs the answers as integer records; SurfaceBasis!VerdictSurf (TLC) decides each one:
integer right-handed vectors, zone law, out-of-plane third vector, reciprocal-lattice normal; same crystal (every atom
congruent to a basis atom modulo the unit-cell lattice, equal multiplicity, count), periodicity, cut strictly between
layers for every offered shift; fault: below unmoved, above moved by the requested vector modulo the in-plane cell.
"""
import json

import numpy as np

from .. import tlc
from ..proj import to_int, excname

S = 1 << 20
S16 = 1 << 16
MARGIN = 8


def _boxes(am):
    return {'cubic': am.Box.cubic(4.0), 'tetragonal': am.Box.tetragonal(3.0, 5.0), 'orthorhombic': am.Box.orthorhombic(3.0, 4.0, 5.5),
            'hexagonal': am.Box.hexagonal(3.0, 5.0), 'monoclinic': am.Box.monoclinic(3.0, 4.0, 5.0, 105.0),
            'triclinic': am.Box.triclinic(3.0, 4.0, 5.0, 80.0, 95.0, 105.0), 'rhombohedral': am.Box.trigonal(4.0, 75.0)}


def _ucells(am):
    def mk(box, rel, types, dd, **props):
        atoms = am.Atoms(atype=types, pos=np.array(rel, dtype=float) / dd)
        s = am.System(atoms=atoms, box=box, scale=True)
        return s, [[int(x) for x in r] + [int(t)] for r, t in zip(rel, types)], dd
    return {
        'fcc': mk(am.Box.cubic(4.0), [[0, 0, 0], [2, 2, 0], [2, 0, 2], [0, 2, 2]], [1, 1, 1, 1], 4),
        'bcc': mk(am.Box.cubic(3.0), [[0, 0, 0], [1, 1, 1]], [1, 1], 2),
        'B2': mk(am.Box.cubic(3.0), [[0, 0, 0], [1, 1, 1]], [1, 2], 2),
        'hcp': mk(am.Box.hexagonal(3.0, 5.0), [[4, 8, 3], [8, 4, 9]], [1, 1], 12),
        'tet2': mk(am.Box.tetragonal(3.0, 5.0), [[0, 0, 0], [2, 2, 1]], [1, 2], 4),
        'tri1': mk(am.Box.triclinic(3.0, 4.0, 5.0, 80.0, 95.0, 105.0), [[1, 2, 3], [5, 6, 1]], [2, 1], 8),
        # cells whose box origin is not zero (the crystal is the same crystal wherever the box is anchored)
        'ortO': mk(am.Box(vects=am.Box.orthorhombic(3.0, 4.0, 5.5).vects, origin=[0.4, -0.9, 1.375]), [[0, 0, 0], [2, 2, 1], [0, 2, 3]], [1, 2, 1], 4),
        'monoO': mk(am.Box(vects=am.Box.monoclinic(3.0, 4.0, 5.0, 105.0).vects, origin=[-0.7, 0.3, 1.85]), [[0, 0, 0], [4, 2, 5]], [1, 2], 8),
    }


def _normal_rec(V, nrm):
    d = V @ nrm
    return [int(round(t * S16)) for t in d], int(round(nrm.dot(nrm) * S16))


def _unit(n):
    n = np.asarray(n, dtype=float)
    return n / np.linalg.norm(n)


def _basis_worker(c):
    import atomman as am
    from atomman.defect import free_surface_basis
    global _BOXES
    try:
        _BOXES
    except NameError:
        _BOXES = _boxes(am)
    box = _BOXES[c['cell']]
    hkl = c['hkl']
    cutname = 'abc'[c['cut'] - 1]
    V = box.vects
    I3 = [[1, 0, 0], [0, 1, 0], [0, 0, 1]]
    out = []
    try:
        uvws, nrm = free_surface_basis(hkl, box=box, cutboxvector=cutname, return_planenormal=True)
        ui, ok = to_int(uvws, 1, tol=1e-9)
        d, n2 = _normal_rec(V, _unit(nrm))
        out.append({'ev': 'basis', 'cell': c['cell'], 'hkl': hkl, 'cut': c['cut'], 'uvws': ui, 'ongrid': ok, 'four': False, 'uvtw3': [],
                    'd': d, 'n2': n2, 's': S16, 'v': I3})
        if c['cell'] == 'hexagonal':
            hkil = [hkl[0], hkl[1], -(hkl[0] + hkl[1]), hkl[2]]
            uvtw, nrm4 = free_surface_basis(hkil, box=box, cutboxvector=cutname, return_planenormal=True)
            if np.shape(uvtw) != (3, 4):
                return ('viol', '4-index plane did not return 4-index vectors', str(np.shape(uvtw)), c)
            u3 = [[row[0] - row[2], row[1] - row[2], row[3]] for row in uvtw]
            ui, ok1 = to_int(u3, 1, tol=1e-9)
            t3, ok2 = to_int(np.array(uvtw) * 3, 1, tol=1e-9)
            d, n2 = _normal_rec(V, _unit(nrm4))
            out.append({'ev': 'basis', 'cell': 'hexagonal4', 'hkl': hkl, 'cut': c['cut'], 'uvws': ui, 'ongrid': ok1 and ok2, 'four': True,
                        'uvtw3': t3, 'd': d, 'n2': n2, 's': S16, 'v': I3})
        # the plane given relative to a CENTRED conventional cell while the cell supplied is its primitive cell (keyword conventional_setting):
        # the vectors come back in primitive indices; doubled and expressed in conventional indices they are integer vectors again and the
        # same record form applies (zone law against the conventional (hkl), normal against the conventional cell vectors)
        import zlib
        # (indices beyond +-2 — thorough tier only — are searched much longer: a quarter of those cases, chosen by a hash of the case)
        if c['cell'] in ('cubic', 'tetragonal', 'orthorhombic') and (max(abs(x) for x in hkl) <= 2 or zlib.crc32(repr((hkl, c['cut'], c['cell'])).encode()) % 4 == 0):
            from atomman.tools import miller
            setting = 'fiabc'[zlib.crc32(repr((c['cell'], hkl, c['cut'])).encode()) % 5]
            lat = miller.vector_primitive_to_conventional(np.identity(3), setting)      # rows: primitive vectors in conventional indices
            lat2, oklat = to_int(lat * 2, 1, tol=1e-12)
            if not oklat or abs(abs(np.linalg.det(lat)) - {'f': .25, 'i': .5}.get(setting, .5)) > 1e-12:
                raise RuntimeError('unexpected primitive lattice for setting %s' % setting)
            pbox = am.Box(vects=lat @ V)
            try:
                uvp, nrmp = free_surface_basis(hkl, box=pbox, cutboxvector=cutname, conventional_setting=setting, return_planenormal=True)
            except AssertionError:
                uvp = None              # documented refusal of the bounded search
            if uvp is not None:
                up, okp = to_int(uvp, 1, tol=1e-9)
                uc2 = (np.array(up) @ np.array(lat2)).tolist()
                d, n2 = _normal_rec(V, _unit(nrmp))
                out.append({'ev': 'basis', 'cell': c['cell'] + ':' + setting, 'hkl': hkl, 'cut': c['cut'], 'uvws': uc2, 'ongrid': okp, 'four': False, 'uvtw3': [],
                            'd': d, 'n2': n2, 's': S16, 'v': I3})
    except Exception as e:
        return ('viol', 'free_surface_basis raised %s' % excname(e), repr(e), c)
    return ('ok', out)


def run(ctx):
    import atomman as am
    from atomman.defect import free_surface_basis, FreeSurface, StackingFault
    from atomman.tools import miller
    quick = ctx.tier == 'quick'
    ctx.rule = ('TLC enumerates every plane within the index bound x 7 cell families x 3 cut vectors; surfaces/faults: 6 unit '
                'cells x low-index planes x cut vectors x size multipliers x every offered shift x fault shifts in eighths; '
                'non-trivial = plane with a zero/negative index or non-cubic cell (basis), every surface/fault record; distinct by input')
    ctx.trusted = ['TLC', 'harness/proj.to_int', 'numpy.linalg.solve for expressing a displacement in the in-plane basis']
    cfg = 'Surf_gen.cfg'
    if not quick:
        cfg = tlc.write_cfg('Surf_gen_t.cfg', open(tlc.MC + '/Surf_gen.cfg').read().replace('SIdx <- IdxQ2', 'SIdx <- IdxT'))
    r = tlc.must_pass(tlc.run('MC_SurfaceBasis', cfg, workers=16, timeout=3000), cfg)
    ctx.add_tlc(r)
    ctx.exhaustive = True
    boxes = _boxes(am)
    recs = []
    import multiprocessing as mp
    with mp.get_context('fork').Pool(16) as pool:
        for res in pool.imap(_basis_worker, r.cases, chunksize=16):
            if res[0] == 'viol':
                ctx.violation(res[1], res[2], res[3])
            else:
                recs += res[1]
    nbasis = len(recs)

    # ---- free-surface systems and stacking faults ------------------------------------------------------------
    rng = np.random.default_rng(ctx.seed)
    ucells = _ucells(am)
    planes = [[1, 0, 0], [0, 0, 1], [1, 1, 0], [1, 1, 1], [-1, 1, 0], [2, 1, 0], [1, 1, -2], [0, -1, 1], [2, -1, 1], [1, 0, 2]]
    refusals = 0
    todo = []
    for name in ucells:
        for hkl in planes:
            for cut in (0, 1, 2):
                todo.append((name, hkl, cut))
    if quick:
        idx = set(int(i) for i in rng.permutation(len(todo))[:120])
        # the cells with a non-zero origin always meet the planes whose oriented vectors are the identity or a relabelling of the axes
        idx |= {i for i, (nm, hk, ct) in enumerate(todo) if nm in ('ortO', 'monoO') and sorted(map(abs, hk)) == [0, 0, 1]}
        todo = [todo[i] for i in sorted(idx)]
    for name, hkl, cut in todo:
        ucell, basis, dd = ucells[name]
        cutname = 'abc'[cut]
        try:
            fs = StackingFault(hkl, ucell, cutboxvector=cutname)
        except ValueError as e:
            # a refusal is the documented one only if the rotated cell really cannot have its cut vector normal to the plane in a
            # LAMMPS-compatible box: cut 'a' needs xy = xz = 0, cut 'b' needs yz = 0, cut 'c' is always possible
            refusals += 1
            try:
                rc = ucell.rotate(free_surface_basis(hkl, box=ucell.box, cutboxvector=cutname))
                tl = 1e-9 * np.abs(rc.box.vects).max()
                legit = {'a': abs(rc.box.bvect[0]) > tl or abs(rc.box.cvect[0]) > tl, 'b': abs(rc.box.cvect[1]) > tl, 'c': False}[cutname]
            except Exception:
                legit = True
            if not legit:
                ctx.violation('an orientation compatible with the requested cut vector was refused', repr(e)[:200], {'ucell': name, 'hkl': hkl, 'cut': cutname})
            continue
        except Exception as e:
            ctx.violation('FreeSurface/StackingFault constructor raised %s' % excname(e), repr(e), {'ucell': name, 'hkl': hkl, 'cut': cutname})
            continue
        # the cut axis of the rotated cell is the plane normal (the two other box vectors lie in the plane)
        n0 = am.tools.miller.plane_crystal_to_cartesian(np.array(hkl), ucell.box)
        nr = np.asarray(fs.transform) @ n0
        ec = np.zeros(3)
        ec[cut] = 1.0
        if np.linalg.norm(np.cross(nr / np.linalg.norm(nr), ec)) > 1e-8 or \
                any(abs(fs.rcell.box.vects[i] @ nr) > 1e-8 * np.linalg.norm(nr) * np.linalg.norm(fs.rcell.box.vects[i]) for i in range(3) if i != cut):
            ctx.violation('surface cell accepted although its in-plane box vectors do not lie in the requested plane', 'normal in the rotated frame %s' % np.round(nr, 6).tolist(),
                          {'ucell': name, 'hkl': hkl, 'cut': cutname})
            continue
        uv = np.array(fs.uvws)[:, :3] if np.array(fs.uvws).shape[1] == 3 else np.array([[r_[0] - r_[2], r_[1] - r_[2], r_[3]] for r_ in fs.uvws])
        detuvw = int(round(abs(np.linalg.det(uv))))
        nshift = len(fs.shifts)
        for si in [int(x) for x in rng.permutation(nshift)]:          # not ascending: index 0 is also asked for after a non-zero one, on the same object
            mults = [int(rng.integers(1, 3)), int(rng.integers(1, 3)), int(rng.integers(1, 3))]
            mults[cut] = int(rng.integers(1, 4))
            kw = {}
            variant = int(rng.integers(0, 4))
            if variant == 1:
                kw['even'] = True
            elif variant == 2:
                kw['minwidth'] = float(fs.rcellwidth * 2.5)
            elif variant == 3:
                kw['vacuumwidth'] = 3.0
            try:
                system = fs.surface(shiftindex=si, sizemults=list(mults), **kw)
            except Exception as e:
                ctx.violation('surface() raised %s' % excname(e), repr(e), {'ucell': name, 'hkl': hkl, 'cut': cutname, 'kw': str(kw)})
                continue
            eff = list(mults)
            eff[cut] = int(round((system.box.vects[cut, cut] - kw.get('vacuumwidth', 0.0)) / fs.rcellwidth))
            shift = fs.shift
            if not np.allclose(shift, np.asarray(fs.shifts)[si], rtol=0, atol=1e-9 * max(1.0, float(np.abs(fs.rcell.box.vects).max()))):
                ctx.violation('surface(shiftindex=k) on an object used before is built with another shift than offered termination k',
                              'k=%d shift %s offered %s' % (si, np.round(shift, 6).tolist(), np.round(np.asarray(fs.shifts)[si], 6).tolist()), {'ucell': name, 'hkl': hkl, 'cut': cutname})
            po = (system.atoms.pos - shift) @ fs.transform
            rel = ucell.box.position_cartesian_to_relative(po) * dd
            xi, ok = to_int(rel, 1, tol=1e-6)
            atoms = [xi[k] + [int(system.atoms.atype[k])] for k in range(system.natoms)]
            vac = kw.get('vacuumwidth', 0.0)
            lo = system.box.origin[cut] + vac / 2
            width = system.box.vects[cut, cut] - vac
            layer = [int(round((p - lo) / width * S)) for p in system.atoms.pos[:, cut]]
            recs.append({'ev': 'surface', 'ucell': name, 'hkl': hkl, 'cut': cut + 1, 'shiftindex': si, 'mults': mults, 'kw': sorted(kw),
                         'atoms': atoms, 'basis': basis, 'dd': dd, 'ongrid': ok, 'pbc': [bool(x) for x in system.pbc],
                         'detuvw': detuvw, 'mult': int(np.prod(eff)), 'layer': layer, 's': S, 'margin': MARGIN})
            # stacking fault on this surface system (needs the fault plane between layers: equivalent cut planes j/eff)
            if eff[cut] >= 2:
                j = int(rng.integers(1, eff[cut]))
                a1, a2 = int(rng.integers(-8, 17)), int(rng.integers(-8, 17))
                if rng.random() < .3:
                    a1, a2 = [(8, 0), (0, 8), (8, 8)][int(rng.integers(0, 3))]
                try:
                    base = fs.system
                    basepos = base.atoms.pos.copy()
                    # the fault plane given box-relative or Cartesian (drawn): with vacuum the box origin along the cut is not zero
                    want_cart = lo + width * j / eff[cut]
                    if rng.random() < .6:
                        fs.faultpos_rel = (want_cart - system.box.origin[cut]) / system.box.vects[cut, cut]
                    else:
                        fs.faultpos_cart = want_cart
                    if abs(fs.faultpos_cart - want_cart) > 1e-8 or abs(fs.faultpos_rel - (want_cart - system.box.origin[cut]) / system.box.vects[cut, cut]) > 1e-8:
                        ctx.violation('fault plane position: relative and Cartesian values disagree', 'cart %r rel %r expected cart %r' % (fs.faultpos_cart, fs.faultpos_rel, want_cart),
                                      {'ucell': name, 'hkl': hkl, 'cut': cutname, 'kw': sorted(kw)})
                    flt = fs.fault(a1=a1 / 8, a2=a2 / 8)
                    above = [bool(x) for x in fs.abovefault]
                    if not np.array_equal(base.atoms.pos, basepos):
                        ctx.violation('fault() modified the surface system it started from', '', {'ucell': name, 'hkl': hkl})
                    disp = flt.atoms.pos - basepos
                    ov = np.zeros(3)
                    ov[cut] = 1.0
                    B = np.array([fs.a1vect_cart, fs.a2vect_cart, ov])
                    e = np.linalg.solve(B.T, disp.T).T
                    e12, ok12 = to_int(e[:, :2] * 8, 1, tol=1e-6)
                    e3 = [int(round(t * 1e6)) for t in e[:, 2]]
                    inidx = [i for i in range(3) if i != cut]
                    # in-plane multipliers of a1vect/a2vect inside the system box
                    rb = np.linalg.solve(np.array([fs.a1vect_cart[inidx], fs.a2vect_cart[inidx]]).T, system.box.vects[inidx][:, inidx].T).T
                    # system in-plane vectors expressed in (a1vect, a2vect): use the lattice they generate -> take det as period check
                    m = [int(round(abs(rb[0, 0]) + abs(rb[0, 1]))), int(round(abs(rb[1, 0]) + abs(rb[1, 1])))]
                    diag = abs(rb[0, 1]) < 1e-9 and abs(rb[1, 0]) < 1e-9
                    if diag:
                        recs.append({'ev': 'fault', 'ucell': name, 'hkl': hkl, 'cut': cut + 1, 'e': [[e12[k][0], e12[k][1], e3[k]] for k in range(len(e3))],
                                     'ongrid': ok12, 'above': above, 'layer': layer, 'fault': int(round(j / eff[cut] * S)), 's': S,
                                     'a': [a1, a2], 'm': m})
                except Exception as e:
                    ctx.violation('fault() raised %s' % excname(e), repr(e), {'ucell': name, 'hkl': hkl, 'cut': cutname, 'a': [a1, a2]})
    ctx.extra['documented_refusals_accepted'] = refusals
    ctx.extra['basis_records'] = nbasis
    ctx.extra['surface_records'] = sum(1 for r_ in recs if r_['ev'] == 'surface')
    ctx.extra['fault_records'] = sum(1 for r_ in recs if r_['ev'] == 'fault')
    for r_ in recs:
        ctx.count()
        if r_['ev'] != 'basis' or r_['cell'] != 'cubic' or 0 in r_['hkl'] or min(r_['hkl']) < 0:
            ctx.nontriv((r_['ev'], r_.get('cell', r_.get('ucell')), tuple(r_['hkl']), r_['cut'], r_.get('shiftindex', 0), json.dumps(r_.get('a', 0))))
    ok, bads, st, tr = tlc.validate_traces('Surf_Trace', 'Surf_trace.cfg', recs, ctx.work, shards=16)
    ctx.states += st
    ctx.transitions += tr
    ctx.traces += ok
    for b in bads:
        rec = b['record']
        short = {k: rec[k] for k in rec if k not in ('atoms', 'layer', 'e', 'above')}
        ctx.violation('%s: %s' % (rec['ev'], b['clause']), json.dumps(short, default=tlc._np)[:1200], {'file': b['file'], 'line': b['l']})
    ctx.sample({'kind': 'C->S basis record', **recs[nbasis // 2]})
    sr = [r_ for r_ in recs if r_['ev'] == 'surface' and len(r_['atoms']) <= 12]
    if sr:
        ctx.sample({'kind': 'C->S surface record', **sr[0]})


def replay(path):
    print(open(path).read()[:3000])
    return 0
