"""C09 -- unit expressions and working units.  Spec: spec/UnitExpr.tla.

S->C decides:
  parse    : every expression AST up to the depth bound (names, numeric literals, * / ^ with negative exponents, nested
             parentheses, tight and spaced printing) with its exact SI value n/d*10^x and dimension computed by TLC;
             uc.parse(string) must equal value * m^L kg^M s^T C^Q in the working units in force, under several working-unit
             configurations; ill-formed strings must be refused.
  history  : TLC enumerates histories of reset_units (named choices of up to four of length/mass/time/energy/charge that are
             not over-determined, and random seeds); after EVERY reset: each chosen unit evaluates to 1, every exact conversion
             pair (ratio computed by TLC) gives the same number, set/get round-trips for scalars and arrays.
C->S: the dimension of every mechanical entry of the eight LAMMPS unit-style tables is OBSERVED through the public API (by
      rescaling one base unit at a time) and TLC compares it with the dimension of its label.
"""
import json
import math

import numpy as np

from .. import tlc
from ..proj import excname

REL = 1e-12


def expected_working(uc, c):
    """exact SI value (n/d*10^x, dim) -> number in the working units in force, using only the four base-unit entries"""
    u = uc.unit
    base = (u['m'], u['kg'], u['s'], u['C'])
    v = c['n'] / c['d'] * 10.0 ** c['x']
    for b, e in zip(base, c['dim']):
        v *= b ** e
    return v


def close(a, b, rel=REL):
    return abs(a - b) <= rel * max(abs(a), abs(b))


def check_convs(uc, convs):
    for c in convs:
        got = uc.get_in_units(uc.set_in_units(1.0, c['from']), c['to'])
        want = c['n'] / c['d'] * 10.0 ** c['x']
        if not close(got, want, 1e-11):
            return 'conversion %s -> %s gives %r, exact ratio %r' % (c['from'], c['to'], got, want), c['from'] + '->' + c['to']
    return None


def apply_cfg(uc, st):
    if st['act'] == 'reset_seed':
        uc.reset_units(seed=st['seed'])
        return {}
    kw = {k: v for k, v in st['cfg'].items() if v != '-'}
    uc.reset_units(**kw)
    return kw


def replay_history(uc, h, convs):
    names = '>'.join(('named(' + ','.join(sorted(s['dims'])) + ')') if s['act'] == 'reset_named' else 'seed' for s in h)
    for i, st in enumerate(h):
        where = 'reset %d of %s' % (i, names)
        try:
            kw = apply_cfg(uc, st)
        except Exception as e:
            return ('reset_units(%s) raised %s' % (','.join(sorted(st.get('dims', ['seed']))), excname(e)), where + ' ' + repr(e)[:200])
        for dim, name in kw.items():
            v = uc.unit[name]
            if not close(v, 1.0, 1e-12):
                return ('chosen %s unit is not 1 after reset_units(%s)' % (dim, ','.join(sorted(kw))), where + ' unit[%s]=%r' % (name, v))
            if not close(uc.parse(name), 1.0, 1e-12):
                return ('parse of chosen %s unit is not 1' % dim, where)
        bad = check_convs(uc, convs)
        if bad:
            return ('after reset_units(%s): conversion %s depends on the working units' % (','.join(sorted(kw)) or 'seed', bad[1]), where + ' ' + bad[0])
        for val, un in ((3.25, 'eV/angstrom^3'), (np.array([1.0, -2.5, 4.0]), 'nm/ps'), (np.arange(6.0).reshape(2, 3) - 2, 'GPa')):
            back = uc.get_in_units(uc.set_in_units(val, un), un)
            if not np.allclose(back, val, rtol=1e-12, atol=0) or np.shape(back) != np.shape(val):
                return ('set/get round trip is not the identity', where + ' %s %s -> %s' % (val, un, back))
    return None


def run(ctx):
    import atomman.unitconvert as uc
    import atomman.lammps as lmp
    quick = ctx.tier == 'quick'
    ctx.rule = ('parse: all ASTs to depth 2 over 3 names and 3 literals, tight and spaced (TLC-enumerated) under 4 working-unit configurations; '
                'history: all single named/seed resets exhaustively (all pairs in thorough) + simulated histories of 4; '
                'non-trivial = expression with a parenthesis, a power or a division / history with a derived base unit (energy given); '
                'distinct by string x configuration / by history')
    ctx.trusted = ['TLC', 'the four base-unit entries uc.unit[m,kg,s,C]', 'python float pow']
    try:
        _run(ctx, uc, lmp, quick)
    finally:
        uc.reset_units()


def _run(ctx, uc, lmp, quick):
    rp = tlc.must_pass(tlc.run('MC_UnitExpr', 'Unit_parse.cfg', workers=16, timeout=3000, heap='8g'), 'Unit_parse')
    ctx.add_tlc(rp)
    rc = tlc.must_pass(tlc.run('MC_UnitExpr', 'Unit_conv.cfg', workers=2, timeout=3000), 'Unit_conv')
    ctx.add_tlc(rc)
    convs = rc.cases
    ctx.exhaustive = True
    # ---- parse cases under several configurations ---------------------------------------------------------
    cfgs = [dict(seed='SI'), dict(length='angstrom', mass='amu', energy='eV', charge='e'), dict(seed=4242), dict(length='nm', time='fs', mass='g')]
    cases = rp.cases
    if quick:
        cfgs = cfgs[:3]
    for ci, kw in enumerate(cfgs):
        uc.reset_units(**kw)
        for c in cases:
            ctx.count()
            s = c['s']
            if c['kind'] == 'refuse':
                ctx.nontriv(('refuse', s))
                try:
                    v = uc.parse(s)
                    ctx.model_drift('ill-formed unit expression %r accepted (-> %r); refusals are not part of the property' % (s, v))
                except Exception:
                    pass
                continue
            if '(' in s or '^' in s or '/' in s:
                ctx.nontriv((s, ci))
            try:
                got = uc.parse(s)
            except Exception as e:
                ctx.violation('parse raised %s on a well-formed expression' % excname(e), s + ' ' + repr(e)[:100], c)
                continue
            want = expected_working(uc, c)
            if not close(got, want):
                ctx.violation('unit expression evaluated with the wrong precedence/value', '%r -> %r expected %r (cfg %s)' % (s, got, want, kw), c)
            ctx.traces += 1
    # every name of the unit table is a unit expression on its own (also the ones with '_' or a non-ASCII character in them) and in a
    # product / quotient with a literal: the table value, and the identity through set_in_units / get_in_units
    for kw in cfgs[:2]:
        uc.reset_units(**kw)
        for name in sorted(uc.unit):
            ctx.count()
            ctx.nontriv(('name', name, json.dumps(kw, sort_keys=True)))
            try:
                v, v2, v3 = uc.parse(name), uc.parse('2*' + name), uc.parse(name + '/4')
                back = uc.get_in_units(uc.set_in_units(1.5, name), name)
            except Exception as e:
                ctx.violation('parse raised %s on a well-formed expression' % excname(e), 'unit name %r %s' % (name, repr(e)[:100]))
                continue
            tv = uc.unit[name]
            if not (close(v, tv) and close(v2, 2 * tv) and close(v3, tv / 4) and close(back, 1.5)):
                ctx.violation('unit expression evaluated with the wrong precedence/value', 'unit name %r -> %r, table value %r' % (name, v, tv))
    # the other public entry points agree with set_in_units / get_in_units: set_literal('value unit') for scalar and array literals,
    # and model(value, unit, error=...) read back with value_unit / error_unit (same shape, same numbers)
    for kw in cfgs[:2]:
        uc.reset_units(**kw)
        for unit_ in ('nm', 'eV/angstrom^3', 'kg*m/s^2', 'GPa'):
            for lit, arr in (('1.5', 1.5), ('[1.0, 2.5, -4.0]', [1.0, 2.5, -4.0]), ('[[1.0, 2.0], [3.0, -0.5]]', [[1.0, 2.0], [3.0, -0.5]])):
                ctx.count()
                ctx.nontriv(('literal', unit_, lit, json.dumps(kw, sort_keys=True)))
                try:
                    got = uc.set_literal(lit + ' ' + unit_)
                    want = uc.set_in_units(np.array(arr), unit_)
                    if np.shape(got) != np.shape(want) or not close(np.ravel(got)[0], np.ravel(want)[0]) or not np.allclose(got, want, rtol=1e-12):
                        ctx.violation('set_literal disagrees with set_in_units', '%r %s -> %r expected %r' % (lit, unit_, got, want))
                except Exception as e:
                    ctx.violation('set_literal raised %s on a well-formed literal' % excname(e), '%r %s %s' % (lit, unit_, repr(e)[:100]))
            for shp in ((), (3,), (3, 3), (2, 3, 3)):
                ctx.count()
                val_ = np.arange(1.0, 1.0 + int(np.prod(shp or (1,)))).reshape(shp) * 0.25
                err_ = val_ * 0.125 + 0.5
                try:
                    m_ = uc.model(uc.set_in_units(val_, unit_), unit_, error=uc.set_in_units(err_, unit_))
                    v2, e2 = uc.value_unit(m_), uc.error_unit(m_)
                    if np.shape(v2) != shp or np.shape(e2) != shp or not np.allclose(uc.get_in_units(v2, unit_), val_, rtol=1e-12) or not np.allclose(uc.get_in_units(e2, unit_), err_, rtol=1e-12):
                        ctx.violation('value / error of a model are not read back with their shape and values', 'shape %s unit %s: value %s error %s' % (shp, unit_, np.shape(v2), np.shape(e2)))
                except Exception as e:
                    ctx.violation('model / value_unit / error_unit raised %s' % excname(e), 'shape %s unit %s %s' % (shp, unit_, repr(e)[:100]))
    ctx.sample({'kind': 'S->C parse case', **[c for c in cases if c['kind'] == 'parse' and '(' in c['s'] and '^' in c['s']][5]})
    # ---- histories of resets ---------------------------------------------------------------------------------
    hists = []
    rh = tlc.must_pass(tlc.run('MC_UnitExpr', 'Unit_hist1.cfg' if quick else 'Unit_hist.cfg', workers=16, timeout=3000, heap='8g'), 'Unit_hist')
    ctx.add_tlc(rh)
    hists += rh.cases
    rs = tlc.must_pass(tlc.run('MC_UnitExpr', 'Unit_sim.cfg', workers=1, timeout=3000, simulate=3 if quick else 40, depth=6, seed=ctx.seed % 100000), 'Unit_sim')
    ctx.add_tlc(rs)
    sim = [h for h in rs.cases if len(h) == 4]
    hists += sim[:1500 if quick else 20000]
    for h in hists:
        ctx.count()
        if any(s['act'] == 'reset_named' and 'energy' in s['dims'] for s in h):
            ctx.nontrivial_count += 1
        bad = replay_history(uc, h, convs)
        if bad:
            ctx.violation(bad[0], bad[1], h)
        ctx.traces += 1
    ctx.extra['histories'] = len(hists)
    ctx.sample({'kind': 'S->C reset history', 'steps': sim[0] if sim else hists[0]})
    ctx.sample({'kind': 'exact conversion pairs (TLC)', 'pairs': convs[:6]})
    # refusal: more than four / over-determined is outside the quantifier; five named units must be refused
    try:
        uc.reset_units(length='nm', mass='g', time='ps', energy='eV', charge='e')
        ctx.violation('five named working units accepted', '')
    except ValueError:
        pass
    # ---- C->S: observed dimension of the LAMMPS style-table entries ------------------------------------------------
    recs = []
    kinds = {'mass': 'mass', 'length': 'length', 'time': 'time', 'energy': 'energy', 'velocity': 'velocity', 'force': 'force', 'torque': 'torque',
             'pressure': 'pressure', 'dynamic viscosity': 'viscosity', 'density': 'density'}
    scal = [('length', 'km', 1e3), ('mass', 'g', 1e-3), ('time', 'ms', 1e-3), ('charge', 'mC', 1e-3)]
    for style in ('real', 'metal', 'si', 'cgs', 'electron', 'micro', 'nano'):
        table = lmp.style.unit(style)
        uc.reset_units(seed='SI')
        base = {k: uc.parse(table[k]) for k in kinds if table.get(k) is not None}
        dims = {k: [] for k in base}
        for dimname, uname, f in scal:
            uc.reset_units(**{dimname: uname})
            for k in base:
                v = uc.parse(table[k])
                ex = math.log(v / base[k]) / math.log(1.0 / f)
                dims[k].append(ex)
        for k in base:
            di = [int(round(x)) for x in dims[k]]
            ok = all(abs(x - r) < 1e-6 for x, r in zip(dims[k], di))
            recs.append({'ev': 'styledim', 'style': style, 'kind': kinds[k], 'entry': table[k], 'dim': di if ok else [99, 99, 99, 99]})
    lj = lmp.style.unit('lj')
    if any(lj[k] is not None for k in kinds):
        ctx.violation('lj style table has dimensional entries', str(lj))
    for r_ in recs:
        ctx.count()
        ctx.nontriv((r_['style'], r_['kind']))
    ok, bads, st, tr = tlc.validate_traces('Unit_Trace', 'Unit_trace.cfg', recs, ctx.work, shards=2)
    ctx.states += st
    ctx.transitions += tr
    ctx.traces += ok
    for b in bads:
        rec = b['record']
        ctx.violation('style table %s/%s: %s' % (rec['style'], rec['kind'], b['clause']), json.dumps(rec), {'file': b['file'], 'line': b['l']})
    ctx.sample({'kind': 'C->S observed dimension', **recs[5]})


def replay(path):
    import atomman.unitconvert as uc
    d = json.load(open(path))
    print(json.dumps(d, indent=1)[:2500])
    return 0
