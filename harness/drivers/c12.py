"""C12 -- Volterra dislocation fields.  Spec: spec/Volterra.tla (laws between fixed-point observations).

C->S decides: the driver solves Volterra problems (cubic x3, hexagonal, tetragonal, orthorhombic and a triclinic positive-definite
stiffness; screw / edge / mixed Burgers vectors; orientations by rotation or by Miller indices in a cell; all cyclic m/n axis
assignments; isotropic and Stroh solvers), evaluates the fields at stencil points and logs fixed-point integers; TLC decides:
Burgers jump and continuity, 1/r homogeneity, Hooke's law, derivative relations by the Richardson-pair rule, K symmetric
positive definite, covariance under rotating the whole problem and under re-assigning the m/n axes, the isotropic closed form
as exact rationals over pi, and the anisotropic -> isotropic limit.
"""
import json

import numpy as np

from .. import tlc
from ..proj import excname

S = 1 << 20


def fx(a, s=S):
    return [int(round(float(x) * s)) for x in np.ravel(a)]


def rot_from_quat(q):
    a, b, c, d = np.array(q, dtype=float) / np.linalg.norm(q)
    return np.array([[a * a + b * b - c * c - d * d, 2 * (b * c - a * d), 2 * (b * d + a * c)],
                     [2 * (b * c + a * d), a * a - b * b + c * c - d * d, 2 * (c * d - a * b)],
                     [2 * (b * d - a * c), 2 * (c * d + a * b), a * a - b * b - c * c + d * d]])


def spd_triclinic(rng):
    M = rng.integers(-6, 7, (6, 6)).astype(float)
    Cm = M + M.T
    Cm += np.eye(6) * (np.abs(Cm).sum(axis=1).max() + 20)
    return Cm


def run(ctx):
    import atomman as am
    from atomman.defect import solve_volterra_dislocation
    quick = ctx.tier == 'quick'
    ctx.rule = ('seeded problems: 7 stiffness classes x screw/edge/mixed x random proper rotations or Miller-index orientations x m/n assignments; '
                'stencil centres on rays at r in {2,4,8}; every record non-trivial; distinct by problem x point')
    ctx.trusted = ['TLC', 'numpy contraction of observed arrays (C:eps, rotation of outputs)', 'rounding of logged floats']
    rng = np.random.default_rng(ctx.seed)
    EC = am.ElasticConstants
    classes = {
        'cubic1': lambda: EC(C11=110., C12=60., C44=30.), 'cubic2': lambda: EC(C11=250., C12=150., C44=120.), 'cubic3': lambda: EC(C11=170., C12=120., C44=76.),
        'hexagonal': lambda: EC(C11=160., C33=180., C12=90., C13=70., C44=45.),
        'tetragonal': lambda: EC(C11=260., C33=300., C12=170., C13=130., C44=100., C66=60.),
        'orthorhombic': lambda: EC(C11=320., C22=200., C33=230., C12=70., C13=75., C23=80., C44=65., C55=78., C66=79.),
        'triclinic': lambda: EC(Cij=spd_triclinic(rng)),
        'isotropic': lambda: EC(C11=100., C12=40.),
    }
    recs = []
    refusals = 0
    reuse = {}
    names = list(classes)
    nprob = 16 if quick else 200
    P3 = np.array([[0, 0, 1], [1, 0, 0], [0, 1, 0]], dtype=float)        # (m,n,xi)=(x,y,z) -> (y,z,x)
    for pi in range(nprob):
        cname = names[pi % len(names)]
        C = classes[cname]()
        kind = ['screw', 'edge', 'mixed'][pi % 3]
        R0 = rot_from_quat(rng.integers(-3, 4, 4) + np.array([4, 0, 0, 0]))      # crystal -> dislocation frame (m=x, n=y, xi=z)
        bl = {'screw': [0, 0, 1.0], 'edge': [1.0, 0, 0], 'mixed': [0.75, 0, -0.5]}[kind]       # in the dislocation frame (in the slip plane n=y)
        if cname != 'isotropic' and pi % 5 == 0:
            bl = [0.5, 0.25, 0.75]                                         # Stroh also takes a climb component
        b_cr = R0.T @ np.array(bl)
        tag = 'p%d:%s:%s' % (pi, cname, kind)
        try:
            try:
                sol = solve_volterra_dislocation(C, b_cr, transform=R0)
            except ValueError:
                # exact eigenvalue degeneracy (e.g. a hexagonal crystal with the line along c): excluded by the quantifier, a documented refusal
                refusals += 1
                continue
            b = sol.burgers
            # ---- K ------------------------------------------------------------------------------------------------------
            K = np.asarray(sol.K_tensor)
            sK = 1024.0 / np.abs(K).max() * 0.9
            recs.append({'ev': 'K', 'tag': tag, 'k': [[int(round(v.real * sK)) for v in row] for row in K],
                         'real': bool(np.abs(np.imag(K)).max() < 1e-9 * np.abs(K).max())})
            ang = rng.random(3) * 2 * np.pi
            for r0, th in zip((2.0, 4.0, 8.0), ang):
                p = np.array([r0 * np.cos(th), r0 * np.sin(th), 0.5])
                if abs(p[1]) < 0.2:
                    p[1] = 0.7
                sig = sol.stress(p)
                eps = sol.strain(p)
                u = sol.displacement(p)
                nrm = max(np.abs(sig).max(), 1e-9)
                # homogeneity (exact relation)
                for k in (2, 4):
                    recs.append({'ev': 'homog', 'tag': tag + ':sig', 'f1': fx(sig / nrm), 'fk': fx(k * sol.stress(k * p) / nrm), 'tol': 4})
                    recs.append({'ev': 'homog', 'tag': tag + ':eps', 'f1': fx(eps / np.abs(eps).max()), 'fk': fx(k * sol.strain(k * p) / np.abs(eps).max()), 'tol': 4})
                # Hooke with the stiffness in the dislocation frame
                C4 = sol.C.Cijkl if hasattr(sol.C, 'Cijkl') else C.transform(R0).Cijkl
                recs.append({'ev': 'hooke', 'tag': tag, 'sig': fx(sig / nrm), 'ceps': fx(np.einsum('ijkl,kl->ij', C4, eps) / nrm), 'tol': 8})
                # derivative relations, Richardson pair
                res = {}
                for hname, h in (('h', r0 / 16), ('h2', r0 / 32)):
                    grad = np.zeros((3, 3))
                    div = np.zeros(3)
                    for j in range(2):                         # fields do not depend on z
                        e = np.zeros(3)
                        e[j] = h
                        grad[:, j] = (sol.displacement(p + e) - sol.displacement(p - e)) / (2 * h)
                        div += (sol.stress(p + e)[:, j] - sol.stress(p - e)[:, j]) / (2 * h)
                    res['eps_' + hname] = np.abs(0.5 * (grad + grad.T) - eps).max() / np.abs(eps).max()
                    res['div_' + hname] = np.abs(div).max() / (nrm / r0)
                recs.append({'ev': 'grad', 'tag': tag, **{k_: int(round(v * S)) for k_, v in res.items()}, 'floor': 64})
            # ---- jump across the cut (negative m half-plane), continuity across the positive one ---------------------------
            d = 1e-9
            up, dn = sol.displacement(np.array([-3.0, d, 0.25])), sol.displacement(np.array([-3.0, -d, 0.25]))
            up2, dn2 = sol.displacement(np.array([3.0, d, 0.25])), sol.displacement(np.array([3.0, -d, 0.25]))
            recs.append({'ev': 'jump', 'tag': tag, 'up': fx(up), 'dn': fx(dn), 'up2': fx(up2), 'dn2': fx(dn2), 'b': fx(b), 'tol': 16})
            # ---- continuity across the n axis (m = 0) above and below the line: the displacement has ONE cut, along negative m ---------
            for yy in (2.0, -2.5):
                l_, r_ = sol.displacement(np.array([-1e-10, yy, 0.25])), sol.displacement(np.array([1e-10, yy, 0.25]))
                recs.append({'ev': 'jump', 'tag': tag + ':n_axis', 'up': fx(up), 'dn': fx(dn), 'up2': fx(l_), 'dn2': fx(r_), 'b': fx(b), 'tol': 16})
            # ---- covariance: rotate the crystal frame of the WHOLE problem by a proper signed permutation g -------------------
            perm = rng.permutation(3)
            sg = rng.choice([-1.0, 1.0], 3)
            g = np.zeros((3, 3))
            for i in range(3):
                g[i, perm[i]] = sg[i]
            if np.linalg.det(g) < 0:
                g[0] *= -1
            sol2 = solve_volterra_dislocation(C.transform(g), g @ b_cr, transform=R0 @ g.T)
            p = np.array([1.7, -2.3, 0.0])
            kn = np.abs(np.asarray(sol.K_tensor)).max()
            recs.append({'ev': 'covar', 'tag': tag + ':crystalframe', 'a': fx(sol.displacement(p)) + fx(sol.stress(p) / nrm) + fx(np.real(sol.K_tensor) / kn),
                         'b': fx(sol2.displacement(p)) + fx(sol2.stress(p) / nrm) + fx(np.real(sol2.K_tensor) / kn), 'tol': 16})
            # ---- the same orientation through the legacy keyword `axes`, given as NON-unit vectors (rows scaled by positive numbers) --------
            sc_ = np.array([[2.0], [0.5], [3.0]]) * float(np.abs(R0).max() * 7)
            sol4 = solve_volterra_dislocation(C, b_cr, axes=R0 * sc_)
            recs.append({'ev': 'covar', 'tag': tag + ':axes_nonunit', 'a': fx(sol.displacement(p)) + fx(sol.stress(p) / nrm) + fx(sol.burgers),
                         'b': fx(sol4.displacement(p)) + fx(sol4.stress(p) / nrm) + fx(sol4.burgers), 'tol': 16})
            # ---- covariance: (m, n) = (y, z): the same physical field in permuted coordinates ------------------------------
            sol3 = solve_volterra_dislocation(C, b_cr, transform=P3 @ R0, m='y', n='z')
            p3 = P3 @ p
            u0 = sol.displacement(p) - sol.displacement(np.array([5.0, 1.0, 0]))
            u3 = sol3.displacement(p3) - sol3.displacement(P3 @ np.array([5.0, 1.0, 0]))
            recs.append({'ev': 'covar', 'tag': tag + ':mn_yz', 'a': fx(P3 @ u0) + fx(P3 @ sol.stress(p) @ P3.T / nrm) + fx(P3 @ np.real(sol.K_tensor) @ P3.T / kn),
                         'b': fx(u3) + fx(sol3.stress(p3) / nrm) + fx(np.real(sol3.K_tensor) / kn), 'tol': 16})
            # ---- history on ONE solver object: evaluate, solve a different problem on the same object, evaluate again ------------
            key = type(sol).__name__
            if key in reuse:
                old = reuse[key]
                old.displacement(np.array([1.0, 1.0, 0.0])); old.stress(np.array([1.0, 1.0, 0.0]))
                old.solve(C, b_cr, transform=R0)
                pj = np.array([1.7, -2.3, 0.0])
                recs.append({'ev': 'covar', 'tag': tag + ':resolved_object', 'a': fx(sol.displacement(pj)) + fx(sol.stress(pj) / nrm) + fx(sol.strain(pj) / np.abs(sol.strain(pj)).max()),
                             'b': fx(old.displacement(pj)) + fx(old.stress(pj) / nrm) + fx(old.strain(pj) / np.abs(sol.strain(pj)).max()), 'tol': 16})
                up_, dn_ = old.displacement(np.array([-3.0, 1e-9, 0.25])), old.displacement(np.array([-3.0, -1e-9, 0.25]))
                recs.append({'ev': 'jump', 'tag': tag + ':resolved_object', 'up': fx(up_), 'dn': fx(dn_), 'up2': fx(up2), 'dn2': fx(dn2), 'b': fx(old.burgers), 'tol': 16})
            reuse[key] = sol
        except Exception as e:
            import traceback
            tb = traceback.extract_tb(e.__traceback__)[-1]
            ctx.violation('Volterra solution raised %s at %s:%s [%s]' % (excname(e), tb.filename.split('/')[-1], tb.name, cname), repr(e)[:200] + ' ' + tag)
    # ---- orientation by Miller indices in a cell agrees with the same orientation given by its rotation ------------------------
    try:
        box = am.Box.cubic(4.0)
        C = classes['cubic1']()
        sA = solve_volterra_dislocation(C, np.array([0.5, -0.5, 0.0]), ξ_uvw=[1, 1, -2], slip_hkl=[1, 1, 1], box=box)
        sB = solve_volterra_dislocation(C, box.vector_crystal_to_cartesian([0.5, -0.5, 0.0]), transform=sA.transform)
        p = np.array([2.1, 1.3, 0.0])
        nrm = np.abs(sA.stress(p)).max()
        recs.append({'ev': 'covar', 'tag': 'miller_vs_rotation', 'a': fx(sA.displacement(p)) + fx(sA.stress(p) / nrm),
                     'b': fx(sB.displacement(p)) + fx(sB.stress(p) / nrm), 'tol': 16})
    except Exception as e:
        ctx.violation('Volterra solution by Miller indices raised %s' % excname(e), repr(e)[:200])
    # ---- Miller-index orientation in cells that are not the unit cube, anisotropic AND isotropic constants, 3 and 4 indices:
    #      the jump is the Cartesian Burgers vector of THAT cell, the field equals the one obtained from the returned rotation
    mil = [('cubic1', am.Box.cubic(4.05), [0.5, -0.5, 0.0], [1, 1, -2], [1, 1, 1], 'edge'),
           ('isotropic', am.Box.cubic(4.05), [0.5, -0.5, 0.0], [1, 1, -2], [1, 1, 1], 'edge'),
           ('isotropic', am.Box.cubic(3.3), [0.5, 0.5, 0.5], [1, 1, 1], [1, -1, 0], 'screw'),
           ('cubic2', am.Box.cubic(3.3), [0.5, 0.5, 0.5], [1, 1, 1], [1, -1, 0], 'screw'),
           ('isotropic', am.Box.hexagonal(3.2, 5.2), [1 / 3, 1 / 3, -2 / 3, 0], [-1, 1, 0, 0], [0, 0, 0, 1], 'edge'),
           ('hexagonal', am.Box.hexagonal(3.2, 5.2), [1 / 3, 1 / 3, -2 / 3, 0], [-1, 1, 0, 0], [0, 0, 0, 1], 'edge'),
           ('isotropic', am.Box.hexagonal(3.2, 5.2), [1 / 3, 1 / 3, -2 / 3, 0], [1, 1, -2, 0], [0, 0, 0, 1], 'screw'),
           ('isotropic', am.Box.hexagonal(3.2, 5.2), [1.0, 0.0, 0.0], [0, 1, 0], [0, 0, 1], 'mixed')]
    for cname, box, buvw, xi, hkl, kind in mil:
        tag = 'miller:%s:%s:%d-index:%s' % (cname, 'cubic' if box.iscubic() else 'hex', len(xi), kind)
        try:
            C = classes[cname]()
            sA = solve_volterra_dislocation(C, np.array(buvw), ξ_uvw=xi, slip_hkl=hkl, box=box)
            bcart = box.vector_crystal_to_cartesian(np.array(buvw)) if len(buvw) == 3 else box.vector_crystal_to_cartesian(am.tools.miller.vector4to3(np.array(buvw)))
            sB = solve_volterra_dislocation(C, bcart, transform=sA.transform)
            p = np.array([2.1, 1.3, 0.0])
            nrm = np.abs(sA.stress(p)).max()
            recs.append({'ev': 'covar', 'tag': tag, 'a': fx(sA.displacement(p)) + fx(sA.stress(p) / nrm),
                         'b': fx(sB.displacement(p)) + fx(sB.stress(p) / nrm), 'tol': 16})
            if kind != 'mixed':
                bm = float(np.linalg.norm(bcart))
                want = [bm, 0.0, 0.0] if kind == 'edge' else [0.0, 0.0, bm]
                up, dn = sA.displacement(np.array([-3.0, 1e-9, 0.25])), sA.displacement(np.array([-3.0, -1e-9, 0.25]))
                up2, dn2 = sA.displacement(np.array([3.0, 1e-9, 0.25])), sA.displacement(np.array([3.0, -1e-9, 0.25]))
                if np.abs(np.abs(sA.burgers) - np.array(want)).max() > 1e-9:
                    ctx.violation('Burgers vector of a Miller-index problem is not the Cartesian vector of the given cell', 'got %s expected +-%s %s' % (sA.burgers.tolist(), want, tag))
                recs.append({'ev': 'jump', 'tag': tag, 'up': fx(up), 'dn': fx(dn), 'up2': fx(up2), 'dn2': fx(dn2), 'b': fx(np.sign(sA.burgers[0] + sA.burgers[2]) * np.array(want)), 'tol': 16})
        except Exception as e:
            ctx.violation('Volterra solution by Miller indices raised %s' % excname(e), repr(e)[:200] + ' ' + tag)
    # ---- the same problem in a length unit 2^-33 times smaller (Burgers vector and field points of order 1e-10): displacement scales with
    #      the unit, strain and stress at corresponding points are unchanged (homogeneity of degree -1 in r, linear in b)
    for cname in ('cubic1', 'isotropic'):
        try:
            C = classes[cname]()
            k_ = 2.0 ** -33
            b0 = np.array([0.75, 0.0, -0.5])
            s1, s2 = solve_volterra_dislocation(C, b0), solve_volterra_dislocation(C, b0 * k_)
            p = np.array([1.7, -2.3, 0.0])
            nrm = np.abs(s1.stress(p)).max()
            q = np.array([5.0, 1.0, 0.0])            # the displacement carries a ln(r) term: only differences between two points scale
            recs.append({'ev': 'covar', 'tag': 'unit_scaling:%s' % cname, 'a': fx(s1.displacement(p) - s1.displacement(q)) + fx(s1.stress(p) / nrm) + fx(s1.burgers),
                         'b': fx((s2.displacement(p * k_) - s2.displacement(q * k_)) / k_) + fx(s2.stress(p * k_) / nrm) + fx(s2.burgers / k_), 'tol': 16})
        except Exception as e:
            ctx.violation('Volterra solution for a Burgers vector of order 1e-10 raised %s' % excname(e), repr(e)[:200] + ' ' + cname)
    # ---- the solved problem does not change when the caller re-uses its ElasticConstants object afterwards (default orientation and a
    #      rotated one): stress, strain and the stored stiffness stay those of the problem that was solved
    for cname in ('cubic1', 'hexagonal', 'isotropic'):
        for tr_ in (None, rot_from_quat(np.array([3, 1, -2, 1]))):
            try:
                Cm = classes[cname]()
                b0 = np.array([0.75, 0.0, -0.5]) if cname == 'isotropic' else np.array([0.75, 0.25, -0.5])
                sm = solve_volterra_dislocation(Cm, b0) if tr_ is None else solve_volterra_dislocation(Cm, tr_.T @ b0, transform=tr_)
                p = np.array([1.7, -2.3, 0.0])
                before = (sm.stress(p).copy(), sm.strain(p).copy(), sm.displacement(p).copy())
                nrm = np.abs(before[0]).max()
                Cm.Cij = classes['cubic2']().Cij * 1.7                      # the caller moves on to another material with the same object
                after = (sm.stress(p), sm.strain(p), sm.displacement(p))
                recs.append({'ev': 'covar', 'tag': 'caller_reuses_C:%s:%s' % (cname, 'default' if tr_ is None else 'rotated'),
                             'a': fx(before[0] / nrm) + fx(before[1] / np.abs(before[1]).max()) + fx(before[2]),
                             'b': fx(after[0] / nrm) + fx(after[1] / np.abs(before[1]).max()) + fx(after[2]), 'tol': 4})
            except ValueError:
                refusals += 1
            except Exception as e:
                ctx.violation('Volterra solution raised %s when the caller re-used its constants' % excname(e), repr(e)[:200] + ' ' + cname)
    # ---- field points of integer type (python ints, integer arrays): the same fields as at the equal float points ---------------------
    for cname in ('isotropic', 'cubic2'):
        try:
            C = classes[cname]()
            sl = solve_volterra_dislocation(C, np.array([1.0, 0.0, 0.5]))
            pf = np.array([[2.0, 1.0, 0.0], [-3.0, 2.0, 0.0], [1.0, -4.0, 0.0]])
            nrm = np.abs(sl.stress(pf)).max()
            en = np.abs(sl.strain(pf)).max()
            for nm, pi_ in (('int64', pf.astype(np.int64)), ('list', pf.astype(int).tolist()), ('int32', pf.astype(np.int32))):
                recs.append({'ev': 'covar', 'tag': 'integer_points:%s:%s' % (cname, nm),
                             'a': fx(sl.displacement(pf).ravel()) + fx(sl.stress(pf).ravel() / nrm) + fx(sl.strain(pf).ravel() / en),
                             'b': fx(np.asarray(sl.displacement(pi_)).ravel()) + fx(np.asarray(sl.stress(pi_)).ravel() / nrm) + fx(np.asarray(sl.strain(pi_)).ravel() / en), 'tol': 16})
            one = sl.stress(np.array([2, 1, 0]))
            recs.append({'ev': 'covar', 'tag': 'integer_points:%s:single' % cname, 'a': fx(sl.stress(pf[0]).ravel() / nrm), 'b': fx(np.asarray(one).ravel() / nrm), 'tol': 16})
        except Exception as e:
            ctx.violation('Volterra fields at integer-typed points raised %s' % excname(e), repr(e)[:200] + ' ' + cname)
    # ---- isotropic closed form: pi * sigma at integer points is an exact rational -------------------------------------------------
    S14 = 1 << 14
    for (mu, nun, nud, be, bs) in ((30, 1, 4, 1, 0), (30, 1, 4, 0, 1), (44, 1, 3, 1, 1), (26, 3, 10, -1, 2)):
        nu_ = nun / nud
        lam = 2 * mu * nu_ / (1 - 2 * nu_)
        Ciso = EC(C11=lam + 2 * mu, C12=lam)
        try:
            sol = solve_volterra_dislocation(Ciso, np.array([float(be), 0.0, float(bs)]))
            for (x, y) in ((1, 2), (-3, 1), (2, -2), (-1, -4), (4, 3)):
                sg_ = sol.stress(np.array([float(x), float(y), 0.0]))
                got = np.pi * np.array([sg_[0, 0], sg_[1, 1], sg_[0, 1], sg_[0, 2], sg_[1, 2]])
                recs.append({'ev': 'iso', 'tag': 'iso:mu%d:nu%d/%d:b(%d,%d)' % (mu, nun, nud, be, bs), 'x': x, 'y': y, 'mu': mu, 'nun': nun, 'nud': nud,
                             'be': be, 'bs': bs, 's': S14, 'got': fx(got, S14), 'tol': 3})
        except Exception as e:
            ctx.violation('isotropic solution raised %s' % excname(e), repr(e)[:200])
    # ---- weakly anisotropic constants (Zener ratio 1 + 2^-14) with a Burgers component along the slip-plane normal: still the
    #      anisotropic problem -- the jump is the whole Burgers vector and the stress is the SUPPLIED stiffness contracted with the strain
    try:
        mu, lam = 30.0, 45.0
        Cw = EC(C11=lam + 2 * mu, C12=lam, C44=mu * (1 + 2.0 ** -14))
        bw = np.array([0.8, 0.35, 0.45])
        sw = solve_volterra_dislocation(Cw, bw)
        up, dn = sw.displacement(np.array([-3.0, 1e-9, 0.25])), sw.displacement(np.array([-3.0, -1e-9, 0.25]))
        up2, dn2 = sw.displacement(np.array([3.0, 1e-9, 0.25])), sw.displacement(np.array([3.0, -1e-9, 0.25]))
        recs.append({'ev': 'jump', 'tag': 'weakly_anisotropic:climb', 'up': fx(up), 'dn': fx(dn), 'up2': fx(up2), 'dn2': fx(dn2), 'b': fx(bw), 'tol': 16})
    except ValueError:
        refusals += 1
    except Exception as e:
        ctx.violation('weakly anisotropic Stroh solution raised %s' % excname(e), repr(e)[:200])
    # ---- anisotropic -> isotropic limit ------------------------------------------------------------------------------------------------
    try:
        mu, lam = 30.0, 45.0
        Ciso = EC(C11=lam + 2 * mu, C12=lam)
        for b0 in ([1.0, 0, 0], [0, 0, 1.0], [0.6, 0, 0.8]):
            iso = solve_volterra_dislocation(Ciso, np.array(b0))
            p = np.array([1.3, 2.1, 0.0])
            ref = iso.stress(p)
            ds = []
            for k in range(3, 9):
                A = 1 + 2.0 ** -k                       # Zener ratio 2 C44 / (C11 - C12)
                Ck = EC(C11=lam + 2 * mu, C12=lam, C44=mu * A)
                st = solve_volterra_dislocation(Ck, np.array(b0))
                ds.append(np.abs(st.stress(p) - ref).max() / np.abs(ref).max())
            recs.append({'ev': 'limit', 'tag': 'limit:b%s' % b0, 'd': [int(round(v * S)) for v in ds], 'tol': 8})
            for mm, nn in (('x', 'y'), ('y', 'z'), ('z', 'x')):
                Pm = {('x', 'y'): np.eye(3), ('y', 'z'): P3, ('z', 'x'): P3 @ P3}[(mm, nn)]
                isoK = solve_volterra_dislocation(Ciso, Pm.T @ (Pm @ np.array(b0)), transform=Pm, m=mm, n=nn).K_tensor
                dk = []
                for k in range(3, 9):
                    Ck = EC(C11=lam + 2 * mu, C12=lam, C44=mu * (1 + 2.0 ** -k))
                    dk.append(np.abs(np.real(solve_volterra_dislocation(Ck, np.array(b0), transform=Pm, m=mm, n=nn).K_tensor) - isoK).max() / np.abs(isoK).max())
                recs.append({'ev': 'limit', 'tag': 'limitK:m%sn%s:b%s' % (mm, nn, b0), 'd': [int(round(v * S)) for v in dk], 'tol': 8})
    except Exception as e:
        ctx.violation('near-isotropic Stroh solution raised %s' % excname(e), repr(e)[:200])
    for r_ in recs:
        ctx.count()
        ctx.nontriv(r_['tag'] + r_['ev'] + str(len(ctx.nontrivial)))
    ok, bads, st_, tr = tlc.validate_traces('Volterra_Trace', 'Volterra_trace.cfg', recs, ctx.work, shards=8)
    ctx.states += st_
    ctx.transitions += tr
    ctx.traces += ok
    ctx.extra['documented_refusals_accepted'] = refusals
    ctx.extra['records'] = {k: sum(1 for r_ in recs if r_['ev'] == k) for k in ('jump', 'homog', 'hooke', 'grad', 'K', 'covar', 'iso', 'limit')}
    import copy
    neg = []
    for ev, mut in (('jump', lambda c: c['up'].__setitem__(0, c['up'][0] + 64)), ('homog', lambda c: c.__setitem__('fk', [int(v * 1.01) + 9 for v in c['fk']])),
                    ('hooke', lambda c: c['ceps'].__setitem__(0, c['ceps'][0] + 64)), ('grad', lambda c: c.__setitem__('eps_h2', c['eps_h'] + 100)),
                    ('K', lambda c: c['k'][0].__setitem__(1, c['k'][0][1] + 9)), ('covar', lambda c: c['b'].__setitem__(0, c['b'][0] + 64)),
                    ('iso', lambda c: c['got'].__setitem__(0, c['got'][0] + 9)), ('limit', lambda c: c.__setitem__('d', c['d'][::-1]))):
        rr = [r_ for r_ in recs if r_['ev'] == ev]
        if rr:
            c = copy.deepcopy(rr[0]); mut(c); neg.append(c)
    ctx.extra['corrupted_records_rejected'] = tlc.must_reject('Volterra_Trace', 'Volterra_trace.cfg', neg, ctx.work, 'C12')
    gr = [r_ for r_ in recs if r_['ev'] == 'grad']
    ctx.extra['richardson_ratios_eps'] = sorted(round(r_['eps_h'] / max(r_['eps_h2'], 1), 2) for r_ in gr)[:5]
    for b in bads:
        rec = b['record']
        t = rec['tag'].split(':')
        ctx.violation('%s[%s]: %s' % (rec['ev'], ':'.join(t[1:3]) if rec['tag'].startswith('p') else t[0], b['clause']), json.dumps(rec)[:1200],
                      {'file': b['file'], 'line': b['l']})
    for ev in ('grad', 'iso', 'limit', 'jump'):
        rr = [r_ for r_ in recs if r_['ev'] == ev]
        if rr:
            ctx.sample({'kind': 'C->S record', **rr[0]})


def replay(path):
    print(open(path).read()[:3000])
    return 0
