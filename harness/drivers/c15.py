"""C15 -- point-defect insertion.  Spec: spec/PointDefect.tla.

S->C decides: TLC enumerates every (defect type x selector x keyword) step over two systems (tilted cell with origin # 0,
mixed pbc) exhaustively for single insertions, exhaustively for pairs with index selectors, and by -simulate for
sequences of 4; each step carries the complete expected atom list (position, type, property, original index) or the
documented refusal.  The driver performs the calls (alternating the direct functions and the point() wrapper) and compares
the projected result, the untouched input, cell / pbc / symbols after every step.
"""
import json
from copy import deepcopy

import numpy as np

from .. import tlc
from ..proj import excname

Q = 8


def build(am, init, atoms):
    box = am.Box(vects=np.array(init['v'], dtype=float) / Q, origin=np.array(init['o'], dtype=float) / Q)
    q = np.array([a['q'] for a in atoms], dtype=int)
    at = am.Atoms(atype=[a['t'] for a in atoms], pos=np.array([a['p'] for a in atoms], dtype=float) / Q,
                  q=q, w=np.outer(q, [1.0, 0.5]))
    return am.System(atoms=at, box=box, pbc=init['pbc'], symbols=['Al', 'Cu', 'Ni'])


def project(s):
    P = s.atoms.pos * Q
    Pi = np.rint(P)
    if np.abs(P - Pi).max() > 1e-6:
        return 'positions off grid: %s' % P.tolist()
    out = []
    for i in range(s.natoms):
        q = int(s.atoms.q[i])
        w = s.atoms.w[i]
        if not np.array_equal(w, q * np.array([1.0, 0.5])):
            return 'vector property of atom %d (%s) does not belong to its scalar property %d' % (i, w.tolist(), q)
        out.append({'p': [int(x) for x in Pi[i]], 't': int(s.atoms.atype[i]), 'q': q,
                    'oid': int(s.atoms.old_id[i]) if 'old_id' in s.atoms.prop() else i})
    return out


def snapshot(s):
    return (s.box.vects.tolist(), s.box.origin.tolist(), [bool(x) for x in s.pbc], tuple(s.symbols),
            {k: np.array(s.atoms.view[k]).tolist() for k in s.atoms.prop()})


def _bits(st, k):
    import zlib
    return zlib.crc32((json.dumps(st['args'], sort_keys=True) + str(k)).encode()) >> 3


def do_step(am, s, st, k, orig_n):
    from atomman import defect
    act, a = st['act'], st['args']
    kw = {}
    sel = a.get('sel')
    scale = bool(a.get('scale', False))
    if sel is not None:
        if sel['by'] == 'id':
            kw['ptd_id'] = sel['id']
        elif sel['by'] == 'relpos':
            if act == 'dumbbell' and not scale:
                kw['pos'] = s.atoms.pos[sel['i']].copy()
            else:
                kw['pos'] = s.box.position_cartesian_to_relative(s.atoms.pos[sel['i']])
                kw['scale'] = True
        else:
            p = np.array(sel['p'], dtype=float) / Q
            off = sel.get('off', 'exact')
            if off == 'within':
                p = p + np.array([1 / 256, 0.0, -1 / 512])
            elif off == 'beyond':
                p = p + np.array([1 / 16, 0.0, 0.0])
            elif off == 'corner':      # every component within the tolerance, the distance beyond it
                p = p + np.array([1 / 128, -1 / 128, 1 / 128])
            if scale:
                p = s.box.position_cartesian_to_relative(p)
            kw['pos'] = p.tolist() if _bits(st, k) & 1 else p
            if sel.get('atol', 'default') != 'default':
                kw['atol'] = {'zero': 0.0 if _bits(st, k) & 4 else 0, 'wide': 0.1, 'huge': 1000.0}[sel['atol']]
                if scale and sel['atol'] == 'zero' and off == 'exact':
                    kw['atol'] = 1e-12          # through the relative -> Cartesian conversion "exact" means exact to rounding
    if act == 'interstitial' and 'near' in a:
        kw['pos'] = np.array(a['p'], dtype=float) / Q + np.array([1 / 16, 0.0, 0.0])
        kw['atol'] = 0.1
        kw['scale'] = False
    elif act == 'interstitial':
        kw['pos'] = (np.array(a['s'], dtype=float) / 8) if scale else (np.array(a['p'], dtype=float) / Q)
        kw['scale'] = scale
        if a['atype']:
            kw['atype'] = a['atype']
    if act == 'substitutional':
        kw['atype'] = a['atype']
    if act == 'dumbbell':
        kw['db_vect'] = np.array(a['db'], dtype=float) / (8 if scale else Q)
        kw['scale'] = scale or kw.get('scale', False)
        if kw['scale'] and not scale:
            pass
    if a.get('q', -1) != -1:
        kw['q'] = a['q']
        kw['w'] = a['q'] * np.array([1.0, 0.5])
    if _bits(st, k) & 2:      # route through the generic entry point; chosen independently of list/array input
        return defect.point(s, ptd_type={'vacancy': 'v', 'interstitial': 'i', 'substitutional': 's', 'dumbbell': 'db'}[act], **kw)
    return getattr(defect, act)(s, **kw)


def replay_case(am, case):
    init = case['init']
    steps = case['steps']
    # initial atoms: reconstruct from the first step?  the model's initial system is identified by its cell
    atoms0 = INITS[json.dumps(init['v'])]
    s = build(am, init, atoms0)
    names = '>'.join(st['act'] for st in steps)
    for k, st in enumerate(steps):
        where = 'step %d of %s' % (k, names)
        snap = snapshot(s)
        exp = st['expect']
        selby = (st['args'].get('sel') or {}).get('by', 'site')
        mode = '%s%s' % (selby, ',scale' if st['args'].get('scale') else '')
        try:
            new = do_step(am, s, st, k, len(atoms0))
        except ValueError as e:
            if 'refused' in exp:
                if snapshot(s) != snap:
                    return ('%s[%s]: input modified by a refused call' % (st['act'], mode), where)
                continue
            return ('%s[%s]: raised ValueError on a valid request' % (st['act'], mode), where + ' ' + str(e)[:200])
        except Exception as e:
            return ('%s[%s]: raised %s' % (st['act'], mode, excname(e)), where + ' ' + str(e)[:200])
        if 'refused' in exp:
            return ('%s[%s]: absent/ambiguous/occupied site was not refused' % (st['act'], mode), where)
        if snapshot(s) != snap:
            return ('%s[%s]: the input system was modified' % (st['act'], mode), where)
        if new is s or new.atoms is s.atoms:
            return ('%s[%s]: did not return a new system' % (st['act'], mode), where)
        if not np.array_equal(new.box.vects, s.box.vects) or not np.array_equal(new.box.origin, s.box.origin) \
                or list(new.pbc) != list(s.pbc) or tuple(new.symbols) != tuple(s.symbols):
            return ('%s[%s]: cell / pbc / symbols changed' % (st['act'], mode), where)
        got = project(new)
        if isinstance(got, str):
            return ('%s[%s]: %s' % (st['act'], mode, got.split(':')[0]), where + ' ' + got)
        want = exp['atoms']
        if len(got) != len(want):
            return ('%s[%s]: wrong atom count' % (st['act'], mode), where + ' got %d expected %d' % (len(got), len(want)))
        for i, (g, w) in enumerate(zip(got, want)):
            for f in ('p', 't', 'q'):
                if g[f] != w[f]:
                    return ('%s[%s]: atom %s differs (%s)' % (st['act'], mode, 'defect' if i >= len(want) - 2 and w['oid'] == -1 or i == len(want) - 1 else 'survivor', f),
                            where + ' atom %d got %s expected %s' % (i, g, w))
            if w['oid'] >= 0 and g['oid'] != w['oid']:
                return ('%s[%s]: old_id does not identify the original atom' % (st['act'], mode), where + ' atom %d got %s expected %s' % (i, g, w))
            if w['oid'] < 0 and g['oid'] in [x['oid'] for x in want if x['oid'] >= 0]:
                return ('%s[%s]: created atom carries the old_id of a surviving atom' % (st['act'], mode), where + ' atom %d got %s' % (i, g))
        s = new
    return None


INITS = {
    json.dumps([[32, 0, 0], [8, 24, 0], [0, 8, 40]]): [
        {'p': [8, -16, 4], 't': 1, 'q': 1}, {'p': [28, -2, 24], 't': 2, 'q': 2}, {'p': [24, -4, 4], 't': 1, 'q': 3}, {'p': [12, 0, 34], 't': 2, 'q': 0}],
    json.dumps([[24, 0, 0], [0, 24, 0], [0, 0, 24]]): [
        {'p': [0, 0, 0], 't': 1, 'q': 2}, {'p': [12, 12, 0], 't': 1, 'q': 1}, {'p': [12, 0, 12], 't': 2, 'q': 0}],
}


def _chunk(cs):
    import atomman as am
    import warnings
    warnings.filterwarnings('ignore')
    return [replay_case(am, c) for c in cs]


def run(ctx):
    import atomman as am
    quick = ctx.tier == 'quick'
    ctx.rule = ('TLC histories of defect insertions: exhaustive single steps (all selectors), exhaustive pairs (index selectors; all '
                'selectors in thorough), simulated sequences of 4; distinct by construction; non-trivial = selection by position / image / '
                'relative position / negative index, or a sequence of >= 2 accepted insertions')
    ctx.trusted = ['TLC', 'the initial systems are duplicated in the driver (INITS) and in MC_PointDefect.tla']
    cases = []
    cfgs = ['Point_exh1.cfg', 'Point_exh2id.cfg'] if quick else ['Point_exh1.cfg', 'Point_exh.cfg']
    for cfg in cfgs:
        r = tlc.must_pass(tlc.run('MC_PointDefect', cfg, workers=16, timeout=6000, heap='12g'), cfg)
        ctx.add_tlc(r)
        cases += r.cases
    ctx.exhaustive = True
    import concurrent.futures as cf
    per = 1 if quick else 12
    with cf.ThreadPoolExecutor(16) as ex:
        futs = [ex.submit(tlc.run, 'MC_PointDefect', 'Point_sim.cfg', 1, None, 6000, per, 5, ctx.seed % 100000 + 7 * i) for i in range(16)]
        for f in futs:
            rs = tlc.must_pass(f.result(), 'Point_sim')
            ctx.add_tlc(rs)
            cases += [c for c in rs.cases if len(c['steps']) == 4]
    import multiprocessing as mp
    chunks = [cases[i::16] for i in range(16)]
    with mp.get_context('fork').Pool(16) as pool:
        results = pool.map(_chunk, chunks)
    for chunk, res in zip(chunks, results):
        for c, bad in zip(chunk, res):
            ctx.count()
            ctx.traces += 1
            acc = sum(1 for st in c['steps'] if 'refused' not in st['expect'])
            if acc >= 2 or any((st['args'].get('sel') or {}).get('by') in ('pos', 'image', 'relpos') or (st['args'].get('sel') or {}).get('id', 0) < 0 for st in c['steps']):
                ctx.nontrivial_count += 1
            if bad:
                ctx.violation(bad[0], bad[1], c)
    from .. import umbrella
    import atomman as _am
    umbrella.run(ctx, _am, 'C15')      # cross-module histories of spec/Atomman.tla (only the steps this property owns are reported here)
    # binding self-test
    import copy
    for c in cases:
        if replay_case(am, c) is None and 'atoms' in c['steps'][-1]['expect']:
            cc = copy.deepcopy(c)
            cc['steps'][-1]['expect']['atoms'][0]['q'] += 1
            if replay_case(am, cc) is None:
                raise tlc.MachineryError('binding self-test: corrupted expectation accepted')
            ctx.extra['corrupted_history_rejected'] = True
            break
    ctx.sample({'kind': 'S->C history', **cases[len(cases) // 2]})


def replay(path):
    import atomman as am
    d = json.load(open(path))
    c = d.get('replay')
    print(json.dumps(c, indent=1)[:3000])
    bad = replay_case(am, c)
    print('replayed:', bad)
    return 1 if bad else 0
