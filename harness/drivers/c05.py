"""C05 -- wrap and normalize.  Spec: spec/Crystal.tla (VerdictWrap, VerdictNormalize; Lattice!WrapFlag, IsLatticeShift).

C->S decides: random dyadic systems (cells incl. left-handed, rotated, tilt up to 2 lx, origin # 0; atoms up to 3 cells
outside, on faces and vertices; all 8 periodicity settings for wrap; extra per-atom properties) are wrapped / normalised by
the real code; the integer records are decided by TLC: image flag = floor of the relative coordinate along periodic
directions only, flags reconstruct the original position, atoms inside afterwards, cell enlarged (never shrunk, never
re-directed) along non-periodic directions; normalised cell = the old cell rotated by the returned proper rotation (third
vector reversed first for a left-handed cell), Gram matrix kept, every atom moved by a lattice vector only (hence all true
nearest-image distances unchanged), atoms inside, input untouched.
"""
import json
from copy import deepcopy

import numpy as np

from .. import tlc
from ..proj import to_int, excname

Q = 4
S = 1 << 20


def rand_cell(rng, lefthanded=False, rotated=False):
    G = 4
    L = rng.integers(1, 7, 3) * G
    tilt = [int(rng.integers(-2 * L[0] // G, 2 * L[0] // G + 1)) * G if rng.random() < .7 else 0 for _ in range(3)]
    v = np.array([[int(L[0]), 0, 0], [tilt[0], int(L[1]), 0], [tilt[1], tilt[2], int(L[2])]])
    if rotated:
        perm = rng.permutation(3)
        sg = rng.choice([-1, 1], 3)
        Pm = np.zeros((3, 3), dtype=int)
        for j in range(3):
            Pm[perm[j], j] = sg[j]
        if round(np.linalg.det(Pm)) < 0:
            Pm[:, 0] *= -1
        v = v @ Pm
    if lefthanded:
        v[2] = -v[2]
    o = rng.integers(-12, 13, 3) * 2 if rng.random() < .6 else np.zeros(3, dtype=int)
    return v, o


def snapshot(s):
    return (s.box.vects.tolist(), s.box.origin.tolist(), [bool(x) for x in s.pbc], {k: np.array(s.atoms.view[k]).tolist() for k in s.atoms.prop()})


def run(ctx):
    import atomman as am
    quick = ctx.tier == 'quick'
    ctx.rule = ('seeded random dyadic systems; non-trivial = at least one atom outside the cell or on a face (wrap) / cell left-handed, '
                'rotated or tilted (normalize); distinct by full input')
    ctx.trusted = ['TLC', 'harness/proj.to_int', 'float64 exactness on the dyadic grid']
    rng = np.random.default_rng(ctx.seed)
    recs = []
    nsys = 1500 if quick else 12000
    G = 4
    for si in range(nsys):
        kind = 'wrap' if si % 2 == 0 else 'normalize'
        # handedness and orientation drawn independently of the kind (a modular pattern once gave left-handed cells to normalize only)
        v, o = rand_cell(rng, lefthanded=bool(rng.random() < .3), rotated=bool(rng.random() < .3))
        n = int(rng.integers(1, 9))
        rel = rng.integers(-3 * G, 4 * G + 1, (n, 3))
        rel[rng.random((n, 3)) < .3] = rng.choice([0, G, -G, 2 * G])
        P = o + (rel @ v) // G
        pbc = [bool(x) for x in rng.integers(0, 2, 3)] if kind == 'wrap' else [True, True, True]
        at = am.Atoms(atype=rng.integers(1, 3, n), pos=P / Q, q=np.arange(n), w=np.outer(np.arange(n), [1.0, -2.0]))
        hist = int(rng.integers(0, 4))
        if hist == 0 or hist == 3:
            s = am.System(atoms=at, box=am.Box(vects=v / Q, origin=o / Q), pbc=pbc)
            if hist == 3:
                s.atoms_prop('pos', scale=True)          # a scaled read before the operation
        else:
            # state carried on the Box object: another cell first, a scaled read, then the cell replaced through a direct Box setter
            v0, o0 = rand_cell(rng, lefthanded=bool(rng.random() < .3), rotated=bool(rng.random() < .3))
            s = am.System(atoms=at, box=am.Box(vects=v0 / Q, origin=o0 / Q), pbc=pbc)
            s.atoms_prop('pos', scale=True)
            if hist == 1:
                s.box.vects = v / Q
                s.box.origin = o / Q
            else:
                s.box.set_vectors(avect=v[0] / Q, bvect=v[1] / Q, cvect=v[2] / Q, origin=o / Q)
        base = {'v': v.tolist(), 'o': o.tolist(), 'pbc': pbc, 'tag': '%s%d:h%d' % (kind, si, hist)}
        try:
            if kind == 'wrap':
                oldbox = deepcopy(s.box)
                flags = s.wrap(return_imageflags=True)
                after, ok = to_int(s.atoms.pos, Q, tol=1e-9)
                relnew = s.atoms_prop('pos', scale=True)
                lo = oldbox.position_cartesian_to_relative(s.box.origin)
                hi = [oldbox.position_cartesian_to_relative(s.box.origin + s.box.vects[i])[i] for i in range(3)]
                par = all(np.linalg.norm(np.cross(s.box.vects[i], oldbox.vects[i])) < 1e-9 and s.box.vects[i].dot(oldbox.vects[i]) > 0 for i in range(3))
                if not (np.array_equal(s.atoms.q, np.arange(n)) and np.array_equal(s.atoms.w, np.outer(np.arange(n), [1.0, -2.0]))):
                    ctx.violation('wrap changed a per-atom property other than pos', '', base)
                recs.append(dict(base, ev='wrap', before=P.tolist(), after=after, ongrid=ok, flags=np.asarray(flags).astype(int).tolist(),
                                 rel=[[int(round(x * S)) for x in r] for r in relnew], s=S,
                                 lo=[int(round(x * S)) for x in lo], hi=[int(round(x * S)) for x in hi], parallel=bool(par)))
            else:
                snap = snapshot(s)
                new, T = s.normalize(return_transform=True)
                same = snapshot(s) == snap
                back, ok1 = to_int(new.atoms.pos @ T, Q, tol=1e-7)
                backv, ok2 = to_int(new.box.vects @ T, Q, tol=1e-7)
                g = new.box.vects @ new.box.vects.T * Q * Q
                gi = np.rint(g)
                ok3 = bool(np.abs(g - gi).max() < 1e-6)
                TT = np.asarray(T)
                prop = bool(np.allclose(TT @ TT.T, np.eye(3), atol=1e-9) and abs(np.linalg.det(TT) - 1) < 1e-9)
                relnew = new.atoms_prop('pos', scale=True)
                if not (np.array_equal(new.atoms.q, np.arange(n)) and np.array_equal(new.atoms.atype, s.atoms.atype)):
                    ctx.violation('normalize changed or reordered per-atom properties', '', base)
                recs.append(dict(base, ev='normalize', pos=P.tolist(), back=back, backv=backv, ongrid=ok1 and ok2 and ok3, proper=prop,
                                 lammps=bool(new.box.is_lammps_norm()), inputsame=bool(same),
                                 gram2=[int(gi[0, 0]), int(gi[1, 1]), int(gi[2, 2]), int(gi[1, 2]), int(gi[0, 2]), int(gi[0, 1])],
                                 rel=[[int(round(x * S)) for x in r] for r in relnew], s=S))
        except Exception as e:
            ctx.violation('%s raised %s on a valid system' % (kind, excname(e)), repr(e)[:300], base)
    for r_ in recs:
        ctx.count()
        V = np.array(r_['v'])
        if r_['ev'] == 'wrap':
            if any(any(f) for f in r_['flags']) or any(x in (0, S) for r in r_['rel'] for x in r):
                ctx.nontriv((r_['tag'],))
        elif np.linalg.det(V) < 0 or np.any(np.triu(V, 1) != 0) or np.any(np.tril(V, -1) != 0):
            ctx.nontriv((r_['tag'],))
    ok, bads, st_, tr = tlc.validate_traces('Crystal_Trace', 'Crystal_trace.cfg', recs, ctx.work, shards=16, timeout=7200)
    ctx.states += st_
    ctx.transitions += tr
    ctx.traces += ok
    ctx.extra['records'] = {e: sum(1 for r_ in recs if r_['ev'] == e) for e in ('wrap', 'normalize')}
    ctx.extra['left_handed_normalized'] = sum(1 for r_ in recs if r_['ev'] == 'normalize' and np.linalg.det(np.array(r_['v'])) < 0)
    ctx.extra['left_handed_wrapped'] = sum(1 for r_ in recs if r_['ev'] == 'wrap' and np.linalg.det(np.array(r_['v'])) < 0)
    for b in bads:
        rec = b['record']
        ctx.violation('%s: %s' % (rec['ev'], b['clause']), json.dumps(rec, default=tlc._np)[:1500], {'file': b['file'], 'line': b['l']})
    from .. import umbrella
    import atomman as _am
    umbrella.run(ctx, _am, 'C05')      # cross-module histories of spec/Atomman.tla (only the steps this property owns are reported here)
    ctx.sample({'kind': 'C->S wrap record', **[r_ for r_ in recs if r_['ev'] == 'wrap' and len(r_['before']) <= 3][0]})
    ctx.sample({'kind': 'C->S normalize record', **[r_ for r_ in recs if r_['ev'] == 'normalize' and len(r_['pos']) <= 2][0]})


def replay(path):
    print(open(path).read()[:3000])
    return 0
