"""C18 -- gamma surface and semidiscrete Peierls-Nabarro energies.  Spec: spec/PNEnergy.tla.

C->S decides: the driver runs GammaSurface and SDVPN on inputs built from integers / dyadic numbers (gamma grids with integer
energies, rectangular and oblique shift vectors in a cell, with and without the duplicated a=1 edge and delta data; disregistry
profiles in eighths on a grid of spacing 1/2; integer tau, alpha, beta) and logs results as integers; TLC (PNEnergy!VerdictPN)
decides each record: samples reproduced, periodicity, coordinate conversions (one and many positions), exact stress / surface /
nonlocal / misfit terms, total = sum, quadratic-form laws of the elastic term, solve monotone with fixed ends, classical
half-width at the energy minimum.
"""
import json

import numpy as np

from .. import tlc
from ..proj import excname

S = 1 << 14


def gamma_grid(n, edge, E):
    """n: samples per period along a1 (and a2), or a pair (n1, n2) for grids of different fineness along the two vectors"""
    n1, n2 = (n, n) if np.ndim(n) == 0 else n
    a1 = np.arange(n1 + (1 if edge else 0)) / n1
    a2 = np.arange(n2 + (1 if edge else 0)) / n2
    A1, A2 = np.meshgrid(a1, a2, indexing='ij')
    if edge:
        EE = np.zeros((n1 + 1, n2 + 1))
        EE[:n1, :n2] = E
        EE[n1, :n2] = E[0]
        EE[:n1, n2] = E[:, 0]
        EE[n1, n2] = E[0, 0]
    else:
        EE = E
    return A1.flatten(), A2.flatten(), EE.flatten()


def run(ctx):
    import atomman as am
    import atomman.unitconvert as uc
    from atomman.defect import GammaSurface, SDVPN, solve_volterra_dislocation, pn_arctan_disregistry
    from DataModelDict import DataModelDict as DM
    quick = ctx.tier == 'quick'
    ctx.rule = ('seeded gamma grids (n=4..6, integer energies, 4 shift-vector settings, edge / delta variants), query sets of 1, 3, 4 and 7 '
                'positions, dyadic disregistry profiles with integer tau/alpha/beta and all finite-difference options, edge / screw / mixed '
                'dislocations with cubic and isotropic constants; every record is non-trivial; distinct by input')
    ctx.trusted = ['TLC', 'rounding of logged floats to integers (harness)', 'scipy minimiser inside SDVPN.solve is part of the code under test']
    rng = np.random.default_rng(ctx.seed)
    recs = []
    a = 4.0 * np.sqrt(2.0)           # cubic lattice constant chosen so that |a/2[1-10]| = 4 exactly
    box = am.Box.cubic(a)
    settings = [dict(a1vect=[1, 0, 0], a2vect=[0, 1, 0], box=None, A1=[8, 0, 0], A2=[0, 8, 0]),
                dict(a1vect=[2, 0, 0], a2vect=[1, 3, 0], box=None, A1=[16, 0, 0], A2=[8, 24, 0]),
                dict(a1vect=[0.5, -0.5, 0], a2vect=[0.5, 0.5, -1], box=box, A1=None, A2=None),
                dict(a1vect=[0.5, -0.5, 0], a2vect=[0, 0.5, -0.5], box=box, A1=None, A2=None)]
    ng = 30 if quick else 200
    for gi in range(ng):
        n = int(rng.integers(4, 7))
        # the two vectors need not be sampled equally finely (a ratio of 5 and more is where a shared boundary cushion once failed)
        n2 = [n, int(rng.integers(3, 17)), 5 * n, 5 * n + int(rng.integers(1, 4))][int(rng.integers(0, 4))]
        n = (n, n2) if rng.random() < .6 else (n2, n)          # the finer direction may be a1 as well as a2
        E = rng.integers(0, 21, n).astype(float)
        st = settings[int(rng.integers(0, 4))]
        edge = bool(rng.random() < .5)
        withdelta = bool(rng.random() < .35)
        tag = 'gamma%d:n%dx%d:%s%s%s' % (gi, n[0], n[1], 'box' if st['box'] is not None else 'cart', ':edge' if edge else '', ':delta' if withdelta else '')
        try:
            g1, g2, ge = gamma_grid(n, edge, E)
            kw = dict(a1vect=st['a1vect'], a2vect=st['a2vect'], a1=g1, a2=g2, E_gsf=ge)
            if st['box'] is not None:
                kw['box'] = st['box']
            if withdelta:
                kw['delta'] = 0.125 * ge
            gs = GammaSurface(**kw)
            s1, s2, _ = gamma_grid(n, False, E)
            got = np.nan_to_num(gs.E_gsf(a1=s1.copy(), a2=s2.copy()), nan=1e6)
            recs.append({'ev': 'gsample', 'tag': tag, 'e': E.flatten().astype(int).tolist(), 'got': [int(round(x * S)) for x in got], 's': S, 'tol': 8})
            # through the data model
            gs2 = GammaSurface(model=DM(gs.model().json()))
            got2 = gs2.E_gsf(a1=s1.copy(), a2=s2.copy())
            recs.append({'ev': 'gsample', 'tag': tag + ':model', 'e': E.flatten().astype(int).tolist(), 'got': [int(round(x * S)) for x in got2], 's': S, 'tol': 8})
            # periodicity at off-sample points, for queries in fractional, Cartesian and plotting coordinates
            q1 = rng.integers(0, 16, 6) / 16 + 1 / 32
            q2 = rng.integers(0, 16, 6) / 16 + 1 / 64
            ii, jj = rng.integers(-3, 4, 6), rng.integers(-3, 4, 6)
            ii[0], jj[0], ii[1], jj[1] = -3, -2, 2, -3
            v0 = gs.E_gsf(a1=q1.copy(), a2=q2.copy())
            v1 = np.nan_to_num(gs.E_gsf(a1=q1 + ii, a2=q2 + jj), nan=1e6)
            recs.append({'ev': 'gperiod', 'tag': tag + ':a12', 'v0': [int(round(x * S)) for x in v0], 'v1': [int(round(x * S)) for x in v1], 'tol': 8})
            pos0 = gs.a12_to_pos(q1, q2)
            pos1 = gs.a12_to_pos(q1 + ii, q2 + jj)
            v2 = np.nan_to_num(gs.E_gsf(pos=pos1), nan=1e6)
            recs.append({'ev': 'gperiod', 'tag': tag + ':pos', 'v0': [int(round(x * S)) for x in v0], 'v1': [int(round(x * S)) for x in np.ravel(v2)], 'tol': 8})
            x, y = gs.pos_to_xy(pos0)
            v3 = gs.E_gsf(x=x, y=y)
            recs.append({'ev': 'gperiod', 'tag': tag + ':xy', 'v0': [int(round(x_ * S)) for x_ in v0], 'v1': [int(round(x_ * S)) for x_ in np.ravel(v3)], 'tol': 8})
            # coordinate conversions: exact integer expectations
            if st['A1'] is not None:
                for npos in (1, 3, 4, 7):
                    f = rng.integers(-12, 13, (npos, 2))
                    a1q, a2q = f[:, 0] / 8, f[:, 1] / 8
                    if npos == 1:
                        a1q, a2q = float(a1q[0]), float(a2q[0])
                    pos = gs.a12_to_pos(a1q, a2q)
                    arg = pos[0] if npos == 1 else pos
                    b1, b2 = gs.pos_to_a12(arg)
                    x, y = gs.pos_to_xy(arg)
                    c1, c2 = gs.xy_to_a12(x, y)
                    P8 = np.reshape(pos, (-1, 3)) * 64
                    back = np.vstack([np.ravel(b1), np.ravel(b2)]).T * 8
                    xyb = np.vstack([np.ravel(c1), np.ravel(c2)]).T * 8
                    ok = all(np.abs(z - np.rint(z)).max() < 1e-6 for z in (P8, back, xyb))
                    xy2 = (np.ravel(x) ** 2 + np.ravel(y) ** 2) * 64 * 64
                    recs.append({'ev': 'gconv', 'tag': tag + ':npos%d' % npos, 'a1': st['A1'], 'a2': st['A2'], 'den': 8, 'f': f.tolist(),
                                 'pos': np.rint(P8).astype(int).tolist(), 'back': np.rint(back).astype(int).tolist(),
                                 'xyback': np.rint(xyb).astype(int).tolist(), 'xy2': [int(round(v)) for v in xy2], 'tol': 2, 'ongrid': bool(ok)})
                # the same conversions with ALTERNATIVE in-plane vectors passed through the a1vect / a2vect keywords (x axis left to default)
                alt1 = np.array(st['a1vect'], dtype=float) + np.array(st['a2vect'], dtype=float)
                alt2 = np.array(st['a2vect'], dtype=float)
                B1 = [int(p_ + q_) for p_, q_ in zip(st['A1'], st['A2'])]
                for npos in (1, 5):
                    f = rng.integers(-12, 13, (npos, 2))
                    a1q, a2q = f[:, 0] / 8, f[:, 1] / 8
                    if npos == 1:
                        a1q, a2q = float(a1q[0]), float(a2q[0])
                    pos = gs.a12_to_pos(a1q, a2q, a1vect=alt1, a2vect=alt2)
                    arg = pos[0] if npos == 1 and np.ndim(pos) == 2 else pos
                    b1, b2 = gs.pos_to_a12(arg, a1vect=alt1, a2vect=alt2)
                    x, y = gs.a12_to_xy(a1q, a2q, a1vect=alt1, a2vect=alt2)
                    c1, c2 = gs.xy_to_a12(x, y, a1vect=alt1, a2vect=alt2)
                    P8 = np.reshape(pos, (-1, 3)) * 64
                    back = np.vstack([np.ravel(b1), np.ravel(b2)]).T * 8
                    xyb = np.vstack([np.ravel(c1), np.ravel(c2)]).T * 8
                    ok = all(np.abs(z - np.rint(z)).max() < 1e-6 for z in (P8, back, xyb))
                    xy2 = (np.ravel(x) ** 2 + np.ravel(y) ** 2) * 64 * 64
                    recs.append({'ev': 'gconv', 'tag': tag + ':altvects:npos%d' % npos, 'a1': B1, 'a2': st['A2'], 'den': 8, 'f': f.tolist(),
                                 'pos': np.rint(P8).astype(int).tolist(), 'back': np.rint(back).astype(int).tolist(),
                                 'xyback': np.rint(xyb).astype(int).tolist(), 'xy2': [int(round(v)) for v in xy2], 'tol': 2, 'ongrid': bool(ok)})
        except Exception as e:
            import traceback
            tb = traceback.extract_tb(e.__traceback__)[-1]
            ctx.violation('GammaSurface raised %s at %s:%s' % (excname(e), tb.filename.split('/')[-1], tb.name), repr(e)[:200] + ' ' + tag)
    # ---- the arctangent model profiles: the normalised density integrates to one Burgers vector over the window and is the derivative
    #      of the disregistry, wherever the dislocation is centred
    try:
        from atomman.defect import pn_arctan_disldensity
        for ctr in (0.0, -11.0, 6.5):
            for hw in (1.5, 4.0):
                bb = np.array([2.5, 0.0, 1.0])
                xr, rho = pn_arctan_disldensity(xmax=40.0, xstep=0.125, burgers=bb, center=ctr, halfwidth=hw, normalize=True)
                xd, dd_ = pn_arctan_disregistry(xmax=40.0, xstep=0.125, burgers=bb, center=ctr, halfwidth=hw, normalize=True)
                tot = (dd_[-1] - dd_[0])
                integ = np.trapezoid(rho, xr, axis=0) if hasattr(np, 'trapezoid') else np.trapz(rho, xr, axis=0)
                mid = (dd_[2:] - dd_[:-2]) / (xd[2:] - xd[:-2])[:, None]
                ctx.count()
                ctx.nontriv(('arctan', ctr, hw))
                if np.abs(tot - bb).max() > 1e-9 or np.abs(integ - bb).max() > 2e-3 * np.abs(bb).max() or np.abs(mid - rho[1:-1]).max() > 1e-2 * np.abs(rho).max():
                    ctx.violation('arctangent profile: normalised density and disregistry do not describe one Burgers vector',
                                  'center %r halfwidth %r: integral %s, disregistry range %s' % (ctr, hw, np.round(integ, 5).tolist(), np.round(tot, 5).tolist()))
    except Exception as e:
        ctx.violation('arctangent profile functions raised %s' % excname(e), repr(e)[:200])
    # ---- Peierls-Nabarro ---------------------------------------------------------------------------------------------------
    C_cub = am.ElasticConstants(C11=uc.set_in_units(110, 'GPa'), C12=uc.set_in_units(60, 'GPa'), C44=uc.set_in_units(30, 'GPa'))
    C_iso = am.ElasticConstants(C11=uc.set_in_units(100, 'GPa'), C12=uc.set_in_units(40, 'GPa'))
    disl = [('edge', [1, 1, -2]), ('screw', [1, -1, 0]), ('mixed', [1, 0, -1])]
    npn = 9 if quick else 45
    for pi in range(npn):
        cub = bool(rng.random() < .5)
        C = C_cub if cub else C_iso
        name, xi = disl[pi % 3]
        tag = 'pn%d:%s:%s' % (pi, name, 'cubic' if cub else 'iso')
        try:
            mm, nn = [('x', 'y'), ('y', 'z'), ('z', 'x')][int(rng.integers(0, 3))]      # the dislocation frame need not be the default one
            tag += ':m%sn%s' % (mm, nn)
            vol = solve_volterra_dislocation(C, np.array([0.5, -0.5, 0.0]), ξ_uvw=xi, slip_hkl=[1, 1, 1], box=box, m=mm, n=nn)
            n = 4
            Eg = rng.integers(0, 9, (n, n)).astype(float)
            g1, g2, ge = gamma_grid(n, bool(rng.random() < .5), Eg)
            gs = GammaSurface(a1vect=[0.5, -0.5, 0], a2vect=[0.5, 0.5, -1], a1=g1, a2=g2, E_gsf=ge, box=box)
            tau = np.zeros((3, 3))
            taurow = rng.integers(-3, 4, 3)
            tau[1, :] = taurow
            tau[:, 1] = taurow
            beta = rng.integers(0, 4, (3, 3)).astype(float)
            alpha = [[2], [0, 3], [1, 2], [2, 0, 1], [0, 0, 2], [3, 1]][int(rng.integers(0, 6))]
            opts = dict(cdiffelastic=bool(rng.random() < .5), cdiffsurface=bool(rng.random() < .5), cdiffstress=False, fullstress=True)
            pn = SDVPN(volterra=vol, gamma=gs, tau=tau, alpha=alpha, beta=beta, **opts)
            N = 12
            x2 = -6
            xs = (x2 + np.arange(N)) / 2
            bhat = vol.burgers / np.linalg.norm(vol.burgers)            # in the solution's Cartesian frame
            bdir = np.array([bhat @ vol.m, bhat @ vol.n, bhat @ vol.ξ])      # in (m, n, xi) coordinates, where the disregistry is given
            for variant in ('onsamples', 'general'):
                if variant == 'onsamples':
                    k = np.sort(rng.integers(0, 9, N))
                    d = np.outer(k, bdir * 4.0 / n * 1.0)                  # multiples of |b|/n along the Burgers direction
                    # the gamma sample hit by k*b/n : a1 = k/n mod 1, a2 = 0
                    gk = [int((kk % n) * n + 0) + 1 for kk in k]
                    if name != 'edge':
                        continue_exact = False
                    d8 = np.rint(d * 8).astype(int)
                    exact = bool(np.abs(d * 8 - d8).max() < 1e-9)
                    if not exact:        # screw / mixed: the Burgers direction is not a coordinate axis -> profile not dyadic; use the edge case for exactness
                        continue
                else:
                    d8 = rng.integers(-16, 17, (N, 3))
                    d = d8 / 8.0
                    gk = []
                en = {nm: getattr(pn, nm + '_energy')(xs, d) if nm != 'longrange' else pn.longrange_energy()
                      for nm in ('misfit', 'elastic', 'longrange', 'stress', 'surface', 'nonlocal')}
                tot = pn.total_energy(xs, d)
                vals = {k_: v * 1024 for k_, v in en.items()}
                ok = all(abs(vals[k_] - round(vals[k_])) < 1e-6 for k_ in ('stress', 'surface', 'nonlocal'))
                recs.append({'ev': 'pnterms', 'tag': tag + ':' + variant, 'd8': np.asarray(d8).tolist(), 'x2': x2, 'tau': [int(t) for t in taurow],
                             'bsum': [int(v) for v in beta.sum(axis=0)], 'alpha': alpha, 'cdiffsurface': opts['cdiffsurface'],
                             'ge': Eg.flatten().astype(int).tolist(), 'gk': gk, 'tol': 2, 'ongrid': bool(ok),
                             **{k_: int(round(v)) for k_, v in vals.items()}, 'total': int(round(tot * 1024))})
            # repeated evaluation on one object, with the stress term computed both ways: nothing kept on the object may change
            for fs_ in (True, False):
                tau0 = tau.copy()
                pr = SDVPN(volterra=vol, gamma=gs, tau=tau0, alpha=alpha, beta=beta, **dict(opts, fullstress=fs_))
                dq = rng.integers(-16, 17, (N, 3)) / 8.0
                e_a = pr.stress_energy(xs, dq)
                kept1 = bool(np.array_equal(pr.tau, tau) and np.array_equal(tau0, tau))        # after ONE evaluation
                e_b = pr.stress_energy(xs, dq)
                e_c = pr.total_energy(xs, dq)
                e_d = pr.total_energy(xs, dq)
                first, second = (e_a, e_c), (e_b, e_d)
                pneg = SDVPN(volterra=vol, gamma=gs, tau=-tau, alpha=alpha, beta=beta, **dict(opts, fullstress=fs_))
                scr = S / max(abs(first[0]), abs(first[1]), 1e-12) / 8
                recs.append({'ev': 'pnrepeat', 'tag': tag + (':fullstress' if fs_ else ':normalstress'), 'first': [int(round(v * scr)) for v in first],
                             'second': [int(round(v * scr)) for v in second], 'neg': int(round(pneg.stress_energy(xs, dq) * scr)),
                             'taukept': bool(kept1 and np.array_equal(pr.tau, tau) and np.array_equal(tau0, tau)), 'tol': 2})
            # quadratic-form laws of the elastic term
            da = rng.integers(-16, 17, (N, 3)) / 8.0
            db = rng.integers(-16, 17, (N, 3)) / 8.0
            el = lambda dd: pn.elastic_energy(xs, dd)
            e1, e2 = el(da), el(db)
            sc = S / max(abs(e1), abs(e2), 1e-12) / 8
            cross12 = el(da + db) - e1 - e2
            pn_t = SDVPN(volterra=vol, gamma=gs, **opts)
            recs.append({'ev': 'pnlaws', 'tag': tag, 'e1': int(round(e1 * sc)), 'e2': int(round(e2 * sc)), 'eplus': int(round(el(da + db) * sc)),
                         'eminus': int(round(el(da - db) * sc)), 'edouble': int(round(el(2 * da) * sc)),
                         'eshift': int(round(el(da + np.array([0.375, -1.0, 2.5])) * sc)),
                         'ecross12': int(round(cross12 * sc)), 'ecross21': int(round((el(db + da) - e2 - e1) * sc)), 'tol': 2})
            # long-range term along a history of cutoffs on ONE object (setter, then solve-style keyword is exercised by pnsolve)
            L1, L2 = float(rng.integers(3, 40)), float(rng.integers(41, 900)) / 4
            hist = {}
            for key, L in (('e1', L1), ('e2', L2), ('e12', L1 * L2), ('esq', L1 * L1), ('eone', 1.0)):
                pn.cutofflongrange = L
                hist[key] = pn.longrange_energy()
                if key in ('e1', 'e12'):
                    hist['t' + key] = pn.total_energy(xs, da)
            kbb = float(np.inner(vol.burgers.dot(vol.K_tensor), vol.burgers).real)
            scl = S / abs(kbb)
            recs.append({'ev': 'pnlong', 'tag': tag, **{k_: int(round(hist[k_] * scl)) for k_ in ('e1', 'e2', 'e12', 'esq', 'eone')},
                         'eform': int(round(kbb * np.log(L1) / (2 * np.pi) * scl)), 'dtot': int(round((hist['te12'] - hist['te1']) * scl)), 'tol': 4})
            # solve: never raises the energy, keeps the end values
            if pi < (2 if quick else 8):
                xs2, d0 = pn_arctan_disregistry(xmax=10, xnum=21, burgers=bdir * np.linalg.norm(vol.burgers), halfwidth=1.5)
                # every other problem carries a strong surface (gradient) term: the solver has to minimise the WHOLE energy
                bet = np.zeros((3, 3)) if pi % 2 else np.diag([uc.set_in_units(300.0, 'GPa*angstrom')] * 3)
                pn2 = SDVPN(volterra=vol, gamma=gs, tau=np.zeros((3, 3)), alpha=[0.0], beta=bet, **opts)
                if not pi % 2:
                    # start from the arctan profile of lowest TOTAL energy: from there a solver that leaves a term out of its objective goes uphill
                    cands = [pn_arctan_disregistry(xmax=10, xnum=21, burgers=bdir * np.linalg.norm(vol.burgers), halfwidth=hw_) for hw_ in (0.4, 0.7, 1.0, 1.5, 2.2, 3.3, 5.0, 7.5)]
                    xs2, d0 = min(cands, key=lambda xd: pn2.total_energy(xd[0], xd[1]))
                before = pn2.total_energy(xs2, d0)
                pn2.solve(x=xs2, disregistry=d0.copy(), min_options={'maxiter': 2 if pi % 2 else 12, 'maxfev': 400 if pi % 2 else 2500})
                after = pn2.total_energy()
                d1 = pn2.disregistry
                recs.append({'ev': 'pnsolve', 'tag': tag, 'before': int(round(before * S)), 'after': int(round(after * S)), 'tol': 2,
                             'first0': [int(round(v * S)) for v in d0[0]], 'first1': [int(round(v * S)) for v in d1[0]],
                             'last0': [int(round(v * S)) for v in d0[-1]], 'last1': [int(round(v * S)) for v in d1[-1]]})
            # classical half-width for a sinusoidal misfit law (edge and screw)
            if name in ('edge', 'screw') and pi < (4 if quick else 12):
                bmag = np.linalg.norm(vol.burgers)
                K = bhat @ vol.K_tensor @ bhat
                gmax = K * bmag / (4 * np.pi ** 2 * 1.5)            # chosen so that the classical half-width is 1.5 (in units of length)
                zeta = K * bmag ** 2 / (4 * np.pi ** 2 * gmax)
                ns = 24
                av = np.arange(ns) / ns
                A1, A2 = np.meshgrid(av, av, indexing='ij')
                Es = 0.5 * gmax * (1 - np.cos(2 * np.pi * A1))
                gsin = GammaSurface(a1vect=[0.5, -0.5, 0], a2vect=[0.5, 0.5, -1], a1=A1.flatten(), a2=A2.flatten(), E_gsf=Es.flatten(), box=box)
                pns = SDVPN(volterra=vol, gamma=gsin, cdiffelastic=False)
                es = []
                for j in range(-4, 5):
                    xw, dw = pn_arctan_disregistry(xmax=60, xstep=bmag / 16, burgers=bdir * bmag, halfwidth=zeta * 2 ** (j / 4))
                    es.append(pns.misfit_energy(xw, dw) + pns.elastic_energy(xw, dw))
                e0 = min(es)
                recs.append({'ev': 'pnwidth', 'tag': tag, 'e': [int(round((v - e0) / max(abs(e0), 1e-12) * (1 << 24))) for v in es], 'slackidx': 1,
                             'zeta': float(zeta)})
                # solve with a strong gradient (surface) term on the smooth misfit law, started from the arctan profile of lowest TOTAL
                # energy: a minimiser whose objective is the whole energy cannot end above its start
                bet = np.zeros((3, 3))
                bet[0, 0] = bet[2, 2] = uc.set_in_units(400.0, 'GPa*angstrom')
                pnb = SDVPN(volterra=vol, gamma=gsin, beta=bet, cdiffelastic=False, min_method='Powell', min_options={'maxiter': 3, 'xtol': 1e-4, 'ftol': 1e-8})
                cands = [pn_arctan_disregistry(xmax=6 * bmag, xnum=25, burgers=bdir * bmag, halfwidth=zeta * 2 ** (j / 2)) for j in range(-2, 7)]
                xb, db = min(cands, key=lambda xd: pnb.total_energy(xd[0], xd[1]))
                before = pnb.total_energy(xb, db)
                pnb.solve(x=xb, disregistry=db.copy())
                after = pnb.total_energy()
                d1 = pnb.disregistry
                recs.append({'ev': 'pnsolve', 'tag': tag + ':surface_term', 'before': int(round(before * S)), 'after': int(round(after * S)), 'tol': 2,
                             'first0': [int(round(v * S)) for v in db[0]], 'first1': [int(round(v * S)) for v in d1[0]],
                             'last0': [int(round(v * S)) for v in db[-1]], 'last1': [int(round(v * S)) for v in d1[-1]]})
        except Exception as e:
            import traceback
            tb = traceback.extract_tb(e.__traceback__)[-1]
            ctx.violation('SDVPN raised %s at %s:%s' % (excname(e), tb.filename.split('/')[-1], tb.name), repr(e)[:200] + ' ' + tag)
    for r_ in recs:
        ctx.count()
        ctx.nontriv(r_['tag'] + r_['ev'])
    ok, bads, st_, tr = tlc.validate_traces('PN_Trace', 'PN_trace.cfg', recs, ctx.work, shards=8)
    ctx.states += st_
    ctx.transitions += tr
    ctx.traces += ok
    import copy
    neg = []
    for ev, mut in (('gsample', lambda c: c['got'].__setitem__(0, c['got'][0] + 64)), ('gperiod', lambda c: c['v1'].__setitem__(0, c['v1'][0] + 64)),
                    ('gconv', lambda c: c['back'][0].__setitem__(0, c['back'][0][0] + 1)), ('pnterms', lambda c: c.__setitem__('surface', c['surface'] + 1)),
                    ('pnlaws', lambda c: c.__setitem__('edouble', c['edouble'] + 64)), ('pnsolve', lambda c: c.__setitem__('after', c['before'] + 64)),
                    ('pnwidth', lambda c: c.__setitem__('e', sorted(c['e'])))):
        rr = [r_ for r_ in recs if r_['ev'] == ev]
        if rr:
            c = copy.deepcopy(rr[0]); mut(c); neg.append(c)
    ctx.extra['corrupted_records_rejected'] = tlc.must_reject('PN_Trace', 'PN_trace.cfg', neg, ctx.work, 'C18')
    ctx.extra['records'] = {k: sum(1 for r_ in recs if r_['ev'] == k) for k in ('gsample', 'gperiod', 'gconv', 'pnterms', 'pnlaws', 'pnsolve', 'pnwidth')}
    for b in bads:
        rec = b['record']
        t = rec['tag'].split(':')
        ctx.violation('%s[%s]: %s' % (rec['ev'], ':'.join(t[1:])[:40] if rec['ev'].startswith('g') else ':'.join(t[1:3]), b['clause']),
                      json.dumps(rec, default=tlc._np)[:1500], {'file': b['file'], 'line': b['l']})
    for ev in ('gconv', 'pnterms', 'pnwidth'):
        rr = [r_ for r_ in recs if r_['ev'] == ev]
        if rr:
            ctx.sample({'kind': 'C->S record', **rr[0]})


def replay(path):
    print(open(path).read()[:3000])
    return 0
