"""C17 -- analysis tools recover a known imposed deformation.  Spec: spec/DeformRecover.tla.

S->C decides: TLC builds the reference crystals on an integer lattice (sc, fcc, bcc, two-type B2; 3x3x4 cells), counts for every
atom its neighbours across the slip plane for cutoffs that select complete shells, and computes G = F^-T, strain, rotation and
first invariant as exact rationals.  The driver builds the real systems (also translated rigidly and with the atoms renumbered
by a random permutation), imposes the deformation and requires displacement / slip_vector / disregistry /
DifferentialDisplacement / Strain / nye_tensor to return the expected values.
"""
import json

import numpy as np

from .. import tlc
from ..proj import excname

A0 = 3.5          # lattice constant; the grid unit is A0/4


def fr(q):
    return q[0] / q[1]


def mat(m):
    return np.array([[fr(x) for x in row] for row in m])


def build(am, c, perm, shift, pbc):
    u = A0 / 4
    P = np.array([a['p'] for a in c['atoms']], dtype=float) * u
    T = np.array([a['t'] for a in c['atoms']])
    box = am.Box(vects=np.array(c['cell'], dtype=float) * u)
    return am.System(atoms=am.Atoms(atype=T[perm], pos=P[perm] + shift), box=am.Box(vects=box.vects, origin=shift), pbc=pbc), P


def run(ctx):
    import atomman as am
    from atomman import defect
    quick = ctx.tier == 'quick'
    ctx.rule = ('TLC cases: 4 crystals x 2 complete-shell cutoffs x 3 plane positions x 4 slip vectors (rigid slip) and 4 crystals x (5 small '
                'deformation gradients + 4 rational rotations); each replayed as is, rigidly translated, and with atoms renumbered; '
                'every case is non-trivial (slip across a plane / non-identity F); distinct by case x variant')
    ctx.trusted = ['TLC', 'float64 arithmetic of the driver when imposing the deformation (x F^T, + s)']
    rng = np.random.default_rng(ctx.seed)
    cases = []
    for m in ('slip', 'homog', 'rot'):
        r = tlc.must_pass(tlc.run('MC_DeformRecover', 'Deform_%s.cfg' % m, workers=16, timeout=3000, heap='8g'), 'Deform_' + m)
        ctx.add_tlc(r)
        cases += r.cases
    ctx.exhaustive = True
    u = A0 / 4
    hom = [c for c in cases if c['kind'] == 'homog']
    for a_, b_ in zip(hom, hom[1:] + hom[:1]):
        a_['next'] = {k: v for k, v in b_.items() if k != 'next'} if a_['crystal'] == b_['crystal'] else None
    for ci, c in enumerate(cases):
        n = len(c['atoms'])
        variants = [('asis', np.arange(n), np.zeros(3))]
        if not quick or ci % 3 == 0:
            variants.append(('translated', np.arange(n), np.array([0.37, -1.21, 2.05])))
        if not quick or ci % 3 == 1:
            variants.append(('renumbered', rng.permutation(n), np.zeros(3)))
        for vname, perm, shift in variants:
            ctx.count()
            ctx.nontriv((ci, vname))
            inv = np.argsort(perm)
            try:
                if c['kind'] == 'slip':
                    bad = slip_case(am, defect, c, perm, inv, shift, u)
                else:
                    bad = homog_case(am, defect, c, perm, inv, shift, u)
            except Exception as e:
                import traceback
                tb = traceback.extract_tb(e.__traceback__)[-1]
                bad = ('%s raised %s at %s:%s' % (c['kind'], excname(e), tb.filename.split('/')[-1], tb.name), repr(e)[:300])
            if bad:
                ctx.violation('%s[%s,%s]: %s' % (c['kind'], c['crystal'], vname, bad[0]), bad[1],
                              {k: v for k, v in c.items() if k not in ('atoms', 'next')})
            ctx.traces += 1
    # binding self-test: corrupted expectations must be rejected
    import copy
    c1 = copy.deepcopy([c for c in cases if c['kind'] == 'slip'][0])
    k = [i for i, a in enumerate(c1['atoms']) if a['ncross'] > 0][0]
    c1['atoms'][k]['slip8'][0] += 1
    n1 = len(c1['atoms'])
    c2 = copy.deepcopy([c for c in cases if c['kind'] == 'homog'][0])
    c2['next'] = None
    c2['g'][0][1] = [c2['g'][0][1][0] + 1, c2['g'][0][1][1]]
    if slip_case(am, defect, c1, np.arange(n1), np.arange(n1), np.zeros(3), u) is None or \
            homog_case(am, defect, c2, np.arange(len(c2['atoms'])), None, np.zeros(3), u) is None:
        raise tlc.MachineryError('binding self-test: corrupted expectation accepted')
    ctx.extra['corrupted_expectations_rejected'] = True
    ctx.sample({'kind': 'S->C slip case (first atoms)', **{k: v for k, v in cases[0].items() if k != 'atoms'}, 'atoms': cases[0]['atoms'][:6]})
    hc = [c for c in cases if c['kind'] == 'homog'][0]
    ctx.sample({'kind': 'S->C homogeneous case', **{k: v for k, v in hc.items() if k not in ('atoms', 'next')}})


def slip_case(am, defect, c, perm, inv, shift, u):
    # the specification's slip plane is normal to z with free surfaces along z; the replay also presents the same problem with the axes
    # cyclically renamed (normal along x or y, the non-periodic direction moving with it), and hands the tools the slipped system
    # either as displaced or wrapped back into the cell -- both drawn from a hash of the case
    ax = np.roll(np.arange(3), _pick(c, 3))              # new component i = old component ax[i]
    wrapped = _pick(c, 7) % 2 == 1
    pbc0 = [True, True, False]
    s0o, P = build(am, c, perm, shift, pbc0)
    V = s0o.box.vects[ax][:, ax]
    pbc = [pbc0[k] for k in ax]
    shiftp = np.asarray(shift)[ax]
    s0 = am.System(atoms=am.Atoms(atype=s0o.atoms.atype, pos=s0o.atoms.pos[:, ax]), box=am.Box(vects=V, origin=shiftp), pbc=pbc)
    above = np.array([a['above'] for a in c['atoms']])[perm]
    s = (np.array(c['s8'], dtype=float) / 8 * u)[ax]
    s1 = am.System(atoms=am.Atoms(atype=s0.atoms.atype, pos=s0.atoms.pos + np.outer(above, s)), box=s0.box, pbc=pbc)
    cutoff = np.sqrt(c['cut2']) * u
    exp_slip = (np.array([a['slip8'] for a in c['atoms']], dtype=float)[perm] / 8 * u)[:, ax]
    # displacement through the periodic boundaries (the slipped system is wrapped first)
    s1w = am.System(atoms=am.Atoms(atype=s1.atoms.atype, pos=s1.atoms.pos.copy()), box=s1.box, pbc=pbc)
    s1w.wrap()
    disp = am.displacement(s0, s1w)
    if not np.allclose(disp, np.outer(above, s), atol=1e-9):
        return ('displacement is not the imposed displacement', 'max diff %r' % np.abs(disp - np.outer(above, s)).max())
    s1u = s1w if wrapped else s1
    where = ' [normal along %s, slipped system %s]' % ('xyz'[list(ax).index(2)], 'wrapped' if wrapped else 'as displaced')
    if _pick(c, 11) % 2:
        # the reference system already carries a neighbour list of ANOTHER cutoff as an attribute (the documented fallback when neither
        # neighbours nor a cutoff are passed): an explicit cutoff still decides
        s0.neighbors = s0.neighborlist(cutoff=cutoff * (0.8 if c['shell'] == 2 else 1.25))
    sv = defect.slip_vector(s0, s1u, cutoff=cutoff)
    if not np.allclose(sv, exp_slip, atol=1e-9):
        k = int(np.argmax(np.abs(sv - exp_slip).sum(axis=1)))
        return ('slip vector is not (neighbours across the plane) x (relative slip)', 'atom %d got %s expected %s' % (k, sv[k].tolist(), exp_slip[k].tolist()) + where)
    # differential displacement of every neighbour pair
    # one-shot, deferred (constructed without neighbours, solved later) or re-solved on the same object after another cutoff
    route = _pick(c, 5) % 3
    if route == 0:
        dd = defect.DifferentialDisplacement(s0, s1u, cutoff=cutoff, reference=0)
    elif route == 1:
        dd = defect.DifferentialDisplacement(s0, s1u, reference=0)
        dd.solve(cutoff=cutoff)
    else:
        dd = defect.DifferentialDisplacement(s0, s0, cutoff=cutoff, reference=0)
        dd.solve(system1=s1u)              # neighbours carried on the object
        dd.solve(cutoff=cutoff)            # systems carried on the object
    nl = s0.neighborlist(cutoff=cutoff)
    want = []
    for i in range(s0.natoms):
        for j in nl[i]:
            want.append((float(above[j]) - float(above[i])) * s)
    want = np.array(want)
    if dd.ddvectors.shape != want.shape or not np.allclose(dd.ddvectors, want, atol=1e-9):
        return ('differential displacement of a pair is not the difference of the imposed displacements', 'shape %s vs %s' % (dd.ddvectors.shape, want.shape) + where)
    # disregistry across the plane
    zp = c['zp2'] / 2 * u + shift[2]
    m = np.array([1.0, 0, 0])[ax]
    n = np.array([0, 0, 1.0])[ax]
    planepos = np.array([shift[0], shift[1], zp])[ax]
    coord, dis = defect.disregistry(s0, s1u, m=m, n=n, planepos=planepos)
    if not np.allclose(dis, s, atol=1e-9):
        return ('disregistry is not the slip', 'got %s expected %s' % (dis[:2].tolist(), s.tolist()) + where)
    return None


def _pick(c, n):
    import zlib
    return (zlib.crc32(json.dumps(c, sort_keys=True, default=str).encode()) >> 5) % n


def homog_case(am, defect, c, perm, inv, shift, u):
    pbc = [True, True, True]
    s0, P = build(am, c, perm, shift, pbc)
    den = c.get('fden', 64)
    F = np.array(c['f64'], dtype=float) / den
    # deformed system: r' = F r (about the box origin), cell vectors transformed alike
    o = s0.box.origin
    pos1 = (s0.atoms.pos - o) @ F.T + o
    s1 = am.System(atoms=am.Atoms(atype=s0.atoms.atype, pos=pos1), box=am.Box(vects=s0.box.vects @ F.T, origin=o), pbc=pbc)
    cutoff = np.sqrt(c['cut2']) * u * 1.08
    G = mat(c['g'])
    st = defect.Strain(s1, cutoff=cutoff, basesystem=s0, theta_max=27)
    if not np.allclose(st.G, G, atol=1e-9):
        k = int(np.argmax(np.abs(st.G - G).reshape(len(st.G), -1).sum(axis=1)))
        return ('lattice-correspondence tensor is not the inverse transpose of F', 'atom %d got %s expected %s' % (k, np.round(st.G[k], 6).tolist(), np.round(G, 6).tolist()))
    if not np.allclose(st.strain, mat(c['strain']), atol=1e-9):
        return ('strain is not sym(I - G)', '')
    if not np.allclose(st.rotation, mat(c['rotation']), atol=1e-9):
        return ('rotation is not skew(I - G)', 'got %s expected %s' % (np.round(st.rotation[0], 6).tolist(), np.round(mat(c['rotation']), 6).tolist()))
    if not np.allclose(st.invariant1, fr(c['inv1']), atol=1e-9):
        return ('first strain invariant is not the trace of the strain', '')
    e_ = mat(c['strain'])
    if not np.allclose(st.invariant2, 0.5 * (np.trace(e_) ** 2 - np.trace(e_ @ e_)), rtol=0, atol=1e-11) or not np.allclose(st.invariant3, np.linalg.det(e_), rtol=0, atol=1e-11):
        return ('second / third strain invariant does not follow from the strain', '')
    if np.abs(st.nye).max() > 1e-8:
        return ('Nye tensor does not vanish for a homogeneous deformation', 'max %r' % np.abs(st.nye).max())
    # the function interface with explicit p vectors taken from the reference crystal
    nl0 = s0.neighborlist(cutoff=np.sqrt(c['cut2']) * u)
    pv = s0.dvect(0, nl0[0])
    if len(set(a['t'] for a in c['atoms'])) == 1 and c['crystal'] not in ('sc', 'dia'):          # (diamond has two kinds of site: no single list of p vectors)
        # the class with ONE list of p vectors shared by all atoms (array, nested list or a list holding the one list)
        arg = [pv, pv.tolist(), [pv]][_pick(c, 3)]
        if len(pv) == s1.natoms:          # as many p vectors as atoms: a bare list would be read as one vector per atom
            arg = [pv]
        st2 = defect.Strain(s1, cutoff=cutoff, p_vectors=arg, theta_max=27)
        if not np.allclose(st2.G, G, atol=1e-9) or np.abs(st2.nye).max() > 1e-8:
            return ('with one shared list of p vectors the lattice-correspondence tensor is not the inverse transpose of F', '')
        # the same p vectors written in a crystal frame that is turned against the system, together with the axes that relate the two
        qa, qb, qc, qd = [(3.0, 1.0, -2.0, 1.0), (2.0, -1.0, 1.0, 3.0), (5.0, 2.0, 0.0, -1.0)][_pick(c, 3)]
        nq = qa * qa + qb * qb + qc * qc + qd * qd
        Ax = np.array([[qa * qa + qb * qb - qc * qc - qd * qd, 2 * (qb * qc - qa * qd), 2 * (qb * qd + qa * qc)],
                       [2 * (qb * qc + qa * qd), qa * qa - qb * qb + qc * qc - qd * qd, 2 * (qc * qd - qa * qb)],
                       [2 * (qb * qd - qa * qc), 2 * (qc * qd + qa * qb), qa * qa - qb * qb - qc * qc + qd * qd]]) / nq
        st3 = defect.Strain(s1, cutoff=cutoff, p_vectors=[pv @ Ax], axes=Ax, theta_max=27)
        if not np.allclose(st3.G, G, atol=1e-9) or np.abs(st3.nye).max() > 1e-8:
            return ('with p vectors given in a turned crystal frame and the axes relating it to the system the result is not the inverse transpose of F', '')
        res = defect.nye_tensor(s1, pv, cutoff=cutoff, theta_max=27)
        if np.abs(res['Nye_tensor']).max() > 1e-8:
            return ('nye_tensor() does not vanish for a homogeneous deformation', 'max %r' % np.abs(res['Nye_tensor']).max())
        if not np.allclose(res['strain'], mat(c['strain']), atol=1e-9):
            return ('nye_tensor() strain is not sym(I - G)', '')
        e_ = mat(c['strain'])
        i1, i2, i3 = np.trace(e_), 0.5 * (np.trace(e_) ** 2 - np.trace(e_ @ e_)), np.linalg.det(e_)
        w_ = mat(c['rotation'])
        av = np.sqrt(w_[0, 1] ** 2 + w_[0, 2] ** 2 + w_[1, 2] ** 2)
        for nm, val in (('strain_invariant_1', i1), ('strain_invariant_2', i2), ('strain_invariant_3', i3), ('angular_velocity', av)):
            if not np.allclose(res[nm], val, rtol=0, atol=1e-11):
                return ('nye_tensor() %s does not follow from the strain / rotation' % nm, 'got %r expected %r' % (float(np.ravel(res[nm])[0]), float(val)))
    # ---- history on ONE Strain object: read derived properties, deform the system in place, re-solve, read again --------------
    if c.get('next') is not None:
        c2 = c['next']
        den2 = c2.get('fden', 64)
        F2 = np.array(c2['f64'], dtype=float) / den2
        _ = (st.strain, st.rotation, st.invariant1, st.nye)             # derived values are now cached inside the object
        s1.box_set(vects=s0.box.vects @ F2.T, origin=o)
        s1.atoms.pos[:] = (s0.atoms.pos - o) @ F2.T + o
        st.solve_G()
        G2 = mat(c2['g'])
        if not np.allclose(st.G, G2, atol=1e-9):
            return ('re-solved lattice-correspondence tensor is not the inverse transpose of the new F', '')
        if not np.allclose(st.strain, mat(c2['strain']), atol=1e-9) or not np.allclose(st.rotation, mat(c2['rotation']), atol=1e-9) \
                or not np.allclose(st.invariant1, fr(c2['inv1']), atol=1e-9):
            return ('after re-solving on the same object strain / rotation / invariant still belong to the previous deformation', '')
    return None


def replay(path):
    print(open(path).read()[:3000])
    return 0
