"""C06 -- per-atom storage under any edit sequence.  Spec: spec/AtomsStore.tla.

S->C decides: TLC enumerates histories of Atoms / System operations (exhaustively for short histories over a populated
start state, -simulate for long ones from the empty state); each step carries the complete abstract state (every object,
every column, symbols, masses, pbc).  The driver performs the same calls on real atomman objects, scribbles on every
array handed out by a copying accessor, and after EVERY step projects all live real objects back to the abstract
representation and compares.  Invariants (rectangular, atype >= 1, symbols/masses cover the types) are checked by TLC on
the model and hold on the real side because the projected states are equal.
"""
import json
from copy import deepcopy

import numpy as np

from .. import tlc
from ..proj import excname

W = {'atype': np.array(1), 'pos': np.array([1.0, 0.5, 0.25]), 'q': np.array(1), 'vel': np.array([1.0, 2.0, 3.0]),
     'ten': np.array([[1.0, 2.0], [3.0, 4.0]])}
DT = {'atype': int, 'pos': float, 'q': int, 'vel': float, 'ten': float}
BOXV = [[4.0, 0.0, 0.0], [1.0, 5.0, 0.0], [0.5, 0.25, 6.0]]
BOXO = [1.0, -2.0, 0.5]


def _h(*x):
    import zlib
    return zlib.crc32(json.dumps(x, default=str).encode()) >> 4


def conc(k, codes):
    """abstract codes (list) -> real array (n,)+shape"""
    c = np.asarray(codes, dtype=DT[k])
    return (c.reshape(c.shape + (1,) * W[k].ndim) * W[k]).astype(DT[k])


def proj_col(k, A):
    A = np.asarray(A)
    w = W[k]
    if A.shape[1:] != w.shape:
        return 'shape%s' % (A.shape,)
    out = []
    for row in A.reshape((A.shape[0],) + w.shape):
        c = row.flat[0] / w.flat[0] if w.ndim else row / w
        c = float(np.asarray(c).flat[0]) if np.ndim(c) else float(c)
        if c != int(c) or not np.array_equal(np.asarray(row, dtype=float), int(c) * w.astype(float)):
            out.append('garbled%s' % np.asarray(row).tolist())
        else:
            out.append(int(c))
    return out


def build_atoms(am, ob):
    d = {}
    for k in ob['keys']:
        d[k] = conc(k, ob['col'][k])
    at = d.pop('atype')
    pos = d.pop('pos')
    return am.Atoms(atype=at, pos=pos, **{k: d[k] for k in ob['keys'] if k in d})


def proj_atoms(a):
    keys = list(a.prop())
    col = {}
    for k in keys:
        col[k] = proj_col(k, a.view[k])
        # every accessor shows the same column: the view, the attribute of the same name, the copying getter
        try:
            same = np.array_equal(np.asarray(getattr(a, k)), np.asarray(a.view[k])) and np.array_equal(np.asarray(a.prop(k)), np.asarray(a.view[k]))
        except Exception:
            same = False
        if not same:
            col[k] = 'accessors_disagree(view / attribute / prop)'
    return {'n': int(a.natoms), 'keys': keys, 'col': col}


def none(x):
    return 'None' if x is None else x


def proj_sys(s):
    d = proj_atoms(s.atoms)
    d['symbols'] = [none(x) for x in s.symbols]
    d['masses'] = ['None' if m is None else str(int(m)) for m in s.masses]
    d['pbc'] = [bool(x) for x in s.pbc]
    return d


def norm_abs(ob, sysm=False):
    if ob['n'] < 0:
        return None
    d = {'n': ob['n'], 'keys': list(ob['keys']), 'col': {k: list(v) for k, v in ob['col'].items()}}
    if sysm:
        d['symbols'] = list(ob['symbols'])
        d['masses'] = list(ob['masses'])
        d['pbc'] = list(ob['pbc'])
    return d


def real_ix(ix):
    f = ix['f']
    if f in ('int', 'neg'):
        return int(ix['i'])
    if f == 'slice':
        return slice(ix['a'], ix['b'])
    if f == 'list':
        return list(ix['l'])
    if f == 'mask':
        m = np.array(ix['m'], dtype=bool)
        return [bool(x) for x in m] if _h('mask', ix['m']) % 2 else m          # a mask may also come as a plain list of python bools
    raise KeyError(f)


def scribble(x):
    if isinstance(x, np.ndarray) and x.ndim and x.size:
        try:
            x[...] = 77
        except Exception:
            pass


class Replayer:
    def __init__(self, am):
        self.am = am
        self.objs = {}
        self.syss = {}
        self.box = am.Box(vects=BOXV, origin=BOXO)

    def new_system(self, atoms, symbols, pbc):
        return self.am.System(atoms=atoms, box=deepcopy(self.box), pbc=pbc, symbols=[None if x == 'None' else x for x in symbols])

    def init_from(self, st):
        for i, ob in enumerate(st['objs']):
            if ob['n'] >= 0:
                self.objs[i + 1] = build_atoms(self.am, ob)
        for i, sy in enumerate(st['syss']):
            if sy['n'] >= 0:
                s = self.new_system(build_atoms(self.am, sy), sy['symbols'], sy['pbc'])
                if any(m != 'None' for m in sy['masses']):
                    s.masses = [None if m == 'None' else float(m) for m in sy['masses']]
                self.syss[i + 1] = s

    def apply(self, st):
        am = self.am
        act, a, ret = st['act'], st['args'], st['ret']
        refused = ret.get('refused')
        try:
            got = self._do(act, a, ret, st)
        except Exception as e:
            if refused and excname(e) == refused:
                return None
            if refused:
                return '%s refused with %s instead of %s' % (act, excname(e), refused)
            return '%s raised %s: %s' % (act, excname(e), str(e)[:200])
        if refused:
            return '%s was not refused (expected %s)' % (act, refused)
        return got

    def _do(self, act, a, ret, st):
        am = self.am
        O = self.objs
        if act == 'init':
            self.init_from(st)
        elif act == 'new':
            O[a['dst']] = build_atoms(am, st['objs'][a['dst'] - 1])
        elif act == 'viewset':
            o, k = O[a['o']], a['k']
            rows = a['rows']
            if a['mode'] == 'scalar':
                v = DT[k](a['c'])
            elif a['mode'] == 'len1':
                v = conc(k, [a['c']])
            elif a['mode'] == 'full':
                v = conc(k, rows)
                if DT[k] is int and k != 'atype' and _h(k, rows) % 2 == 0:
                    v = v.astype(float)          # the same whole-number values handed over as floats (a whole-column assignment of another dtype kind)
            else:
                v = conc(k, list(rows) + [1])
            if a['via'] == 'view':
                o.view[k] = v
            elif a['via'] == 'attr':
                setattr(o, k, v)
            else:
                o.prop(key=k, value=v)
        elif act == 'propset':
            o, k = O[a['o']], a['k']
            vals = a['vals']
            v = conc(k, vals)[0] if a['ix']['f'] in ('int', 'neg') else conc(k, vals)
            o.prop(key=k, index=real_ix(a['ix']), value=v)
        elif act == 'propget':
            o, k = O[a['o']], a['k']
            if a['ix']['f'] == 'all':
                res = o.prop(key=k)
            else:
                res = o.prop(key=k, index=real_ix(a['ix']))
            arr = np.asarray(res)
            if ret['scalar']:
                arr = arr.reshape((1,) + arr.shape)
            got = proj_col(k, arr)
            scribble(res)
            if got != ret['vals']:
                return 'prop(%s, index=%s) returned %s expected %s' % (k, a['ix']['f'], got, ret['vals'])
        elif act == 'propatype':
            O[a['o']].prop_atype(a['k'], conc(a['k'], a['vals']))
        elif act == 'propatype1':
            O[a['o']].prop_atype(a['k'], conc(a['k'], [a['c']])[0], atype=a['t'])
        elif act == 'extendn':
            O[a['dst']] = O[a['o']].extend(a['m'])
        elif act == 'extend':
            O[a['dst']] = O[a['o']].extend(O[a['p']])
        elif act == 'getitem':
            if a['via'] == 'getitem':
                O[a['dst']] = O[a['o']][real_ix(a['ix'])]
            else:
                O[a['dst']] = O[a['o']].prop(index=real_ix(a['ix']))
        elif act == 'setitem':
            O[a['o']][real_ix(a['ix'])] = O[a['p']]
        elif act == 'sysnew':
            self.syss[a['s']] = self.new_system(deepcopy(O[a['o']]), a['symbols'], a['pbc'])
        elif act == 'setsymbols':
            sym = a['symbols']
            self.syss[a['s']].symbols = sym[0] if len(sym) == 1 else list(sym)
        elif act == 'setmasses':
            self.syss[a['s']].masses = [float(m) for m in a['masses']]
        elif act == 'setpbc':
            self.syss[a['s']].pbc = a['pbc']
        elif act == 'sysatype':
            self.syss[a['s']].atoms_prop(key='atype', index=a['i'], value=a['t'])
        elif act == 'sysix':
            self.syss[a['dst']] = self.syss[a['s']].atoms_ix[real_ix(a['ix'])]
        elif act == 'sysextend':
            s = self.syss[a['s']]
            add = O[a['o']]
            sym = None if a['symbols'] == ['None'] else list(a['symbols'])
            if a['scale']:
                add = deepcopy(add)
                add.pos[:] = s.box.position_cartesian_to_relative(add.pos)
            before = {k_: np.array(add.view[k_]) for k_ in add.prop()}
            self.syss[a['dst']] = s.atoms_extend(add, scale=a['scale'], symbols=sym)
            if any(not np.array_equal(before[k_], add.view[k_]) for k_ in before) or list(add.prop()) != list(before):
                return 'atoms_extend(scale=%s) modified the Atoms object passed to it' % a['scale']
        elif act == 'sysextendn':
            self.syss[a['dst']] = self.syss[a['s']].atoms_extend(a['m'])
        elif act == 'syspropget':
            s = self.syss[a['s']]
            res = s.atoms_prop(key=a['k'], scale=a['scale'])
            arr = s.box.position_relative_to_cartesian(res) if a['scale'] else np.array(res)
            arr = np.round(arr, 9)
            got = proj_col(a['k'], arr)
            scribble(res)
            if got != ret['vals']:
                return 'atoms_prop(%s, scale=%s) returned %s expected %s' % (a['k'], a['scale'], got, ret['vals'])
        else:
            raise KeyError(act)
        return None

    def compare(self, st):
        for i, ob in enumerate(st['objs']):
            exp = norm_abs(ob)
            if exp is None:
                continue
            got = proj_atoms(self.objs[i + 1])
            if got != exp:
                return 'Atoms object %d differs from the record-per-atom model: %s' % (i + 1, _diff(got, exp))
        for i, sy in enumerate(st['syss']):
            exp = norm_abs(sy, True)
            if exp is None:
                continue
            got = proj_sys(self.syss[i + 1])
            got['col'] = {k: (proj_col(k, np.round(self.syss[i + 1].atoms.view[k], 9)) if k == 'pos' else v) for k, v in got['col'].items()}
            if got != exp:
                return 'System %d differs from the model: %s' % (i + 1, _diff(got, exp))
        return None


def _diff(got, exp):
    for k in ('n', 'keys', 'symbols', 'masses', 'pbc'):
        if k in exp and got.get(k) != exp[k]:
            return '%s got %s expected %s' % (k, got.get(k), exp[k])
    for k in exp['col']:
        if got['col'].get(k) != exp['col'][k]:
            return 'column %s got %s expected %s' % (k, got['col'].get(k), exp['col'][k])
    return 'got %s expected %s' % (got, exp)


def replay_history(am, h):
    rp = Replayer(am)
    for i, st in enumerate(h):
        where = 'step %d of %s' % (i, '>'.join(s['act'] for s in h[:i + 1]))
        bad = rp.apply(st)
        if bad is None:
            try:
                bad = rp.compare(st)
            except Exception as e:
                bad = 'projection raised %s: %s' % (excname(e), str(e)[:200])
        if bad:
            # signature: the action (with its mode) and the failure class, not the data
            a = st['args']
            mode = a.get('mode') or a.get('via') or (a.get('ix') or {}).get('f') or ('scale' if a.get('scale') else '')
            return ('%s[%s]: %s' % (st['act'], mode, bad.split(':')[0][:80]), where + ' :: ' + bad)
    return None


def run(ctx):
    import atomman as am
    quick = ctx.tier == 'quick'
    ctx.rule = ('histories of Atoms/System operations generated by TLC (exhaustive depth-2 over a populated state, simulated depth-9 '
                'from empty); every history is distinct; non-trivial = contains at least one state-changing edit after creation')
    ctx.trusted = ['TLC', 'the code<->array weight patterns of the driver (conc/proj_col)']
    hists = []
    for cfg in (('Atoms_exh.cfg' if quick else 'Atoms_exh_thorough.cfg'), 'Atoms_exh_sys.cfg'):
        # the thorough enumeration prints ~650 000 histories (1.3 GB of JSON): they stay text here and are parsed one at a time by the
        # replay workers (as Python objects they once exhausted 56 GB)
        r = tlc.must_pass(tlc.run('MC_AtomsStore', cfg, workers=16, timeout=6000, heap='12g', raw_cases=True, keep_stdout=False), cfg)
        ctx.add_tlc(r)
        hists += r.cases
    ctx.exhaustive = True
    nsim = 64 if quick else 1500
    shards = 16
    import concurrent.futures as cf
    with cf.ThreadPoolExecutor(shards) as ex:
        futs = [ex.submit(tlc.run, 'MC_AtomsStore', 'Atoms_sim.cfg', workers=1, timeout=6000, simulate=max(1, nsim // shards), depth=10,
                          seed=ctx.seed % 100000 + i, raw_cases=True, keep_stdout=False) for i in range(shards)]
        cap = 4000 if quick else 6000          # per shard: in simulation mode TLC prints a case for EVERY candidate successor at the last depth
        for f in futs:
            rs = tlc.must_pass(f.result(), 'Atoms_sim')
            ctx.add_tlc(rs)
            kept = 0
            for t_ in rs.cases:                  # text; parsed one at a time only to read its length
                if kept < cap and len(json.loads(t_)) == 9:
                    hists.append(t_)
                    kept += 1
            rs.cases = []
    ctx.extra['histories'] = len(hists)
    import multiprocessing as mp
    chunks = [hists[i::16] for i in range(16)]
    with mp.get_context('fork').Pool(16) as pool:
        results = pool.map(_replay_chunk, chunks)
    acts = {}
    for chunk, (bads, cnt, nontriv) in zip(chunks, results):
        ctx.count(len(chunk))
        ctx.traces += len(chunk)
        ctx.nontrivial_count += nontriv
        for k_, v_ in cnt.items():
            acts[k_] = acts.get(k_, 0) + v_
        for idx, bad in bads:
            ctx.violation(bad[0], bad[1], json.loads(chunk[idx]))
    ctx.extra['action_counts'] = acts
    # binding self-test: a history whose recorded expectation is corrupted in one cell MUST be rejected by the replay
    import copy
    for ht in hists:
        h = json.loads(ht)
        if replay_history(am, h) is None and h[-1]['objs'][0]['n'] > 0:
            hc = copy.deepcopy(h)
            k = hc[-1]['objs'][0]['keys'][-1]
            hc[-1]['objs'][0]['col'][k][0] += 1
            if replay_history(am, hc) is None:
                raise tlc.MachineryError('binding self-test: corrupted expectation was accepted')
            ctx.extra['corrupted_history_rejected'] = True
            break
    hh = json.loads(hists[len(hists) // 2])
    ctx.sample({'kind': 'S->C history (actions, args)', 'steps': [{'act': s['act'], 'args': s['args'], 'ret': s['ret']} for s in hh]})
    from .. import umbrella
    umbrella.run(ctx, am, 'C06')      # cross-module histories of spec/Atomman.tla (only the steps this property owns are reported here)

def _replay_chunk(hs):
    import atomman as am
    import warnings
    warnings.filterwarnings('ignore')
    bads, cnt, nontriv = [], {}, 0
    for idx, ht in enumerate(hs):
        h = json.loads(ht)
        for s in h:
            cnt[s['act']] = cnt.get(s['act'], 0) + 1
        if any(s['act'] not in ('init', 'new', 'propget', 'syspropget', 'sysnew') for s in h):
            nontriv += 1
        bad = replay_history(am, h)
        if bad:
            bads.append((idx, bad))
    return bads, cnt, nontriv


def replay(path):
    import atomman as am
    d = json.load(open(path))
    h = d.get('replay')
    print(json.dumps([{'act': s['act'], 'args': s['args'], 'ret': s['ret']} for s in h], indent=1)[:3000])
    bad = replay_history(am, h)
    print('replayed:', bad)
    return 1 if bad else 0
