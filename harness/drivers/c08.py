"""C08 -- load(dump(s)) = s for LAMMPS data / dump files, tables and POSCAR.  Spec: spec/RoundTrip.tla.

S->C decides: TLC enumerates (system description x format options x allowed perturbation or damage x input kind x dump-load
once or twice) with the expected outcome (which fields the format carries, which normalisation applies, or the format error
for a file lacking a required section).  The driver builds the system (dyadic values, triclinic cell with origin, atoms
inside / outside / on faces, types with a gap, velocity / charge / vector / tensor properties), calls the real writer,
perturbs the text, calls the real loader on a string / path / stream and compares every carried field exactly (values are
dyadic and printed with 13 digits) or to the printed precision for '%.5e'.
"""
import io
import json
import os

import numpy as np

from .. import tlc
from ..proj import excname

V_ORTHO = np.array([[4.0, 0, 0], [0, 5.0, 0], [0, 0, 6.0]])
V_TRI = np.array([[4.0, 0, 0], [0.5, 5.0, 0], [0.25, -0.5, 6.0]])
ORIGIN = np.array([1.0, -2.0, 0.5])


def build(am, uc, d):
    V = V_ORTHO if d['cell'] == 'ortho' else V_TRI
    o = ORIGIN if d['origin'] else np.zeros(3)
    rel = {'inside': [[0.25, 0.5, 0.125], [0.5, 0.75, 0.875], [0.125, 0.25, 0.5], [0.75, 0.125, 0.625]],
           'outside': [[0.25, 0.5, 0.125], [1.5, 0.75, -0.875], [-2.125, 0.25, 0.5], [0.75, 3.125, 0.625]],
           'face': [[0.0, 0.5, 0.125], [0.5, 0.0, 0.875], [0.125, 0.25, 0.0], [0.0, 0.0, 0.0]]}[d['place']]
    rel = np.array(rel)
    atype = {'one': [1, 1, 1, 1], 'two': [1, 2, 2, 1], 'gap': [3, 1, 1, 3]}[d['types']]
    nt = max(atype)
    props = {}
    A = lambda x, u: uc.set_in_units(np.array(x, dtype=float), u)
    if 'velocity' in d['props']:
        props['velocity'] = A([[0.5, 0, 1], [1, 2, 3], [-1, 0, 0.25], [0.125, -2, 4]], 'angstrom/ps')
    if 'charge' in d['props']:
        props['charge'] = A([0.5, -0.5, 0.25, -0.25], 'e')
    if 'w' in d['props']:
        props['w'] = np.arange(8.0).reshape(4, 2) - 3
        props['w1'] = (np.arange(4.0).reshape(4, 1) - 1.5) * 0.25          # a length-1 trailing axis is a shape too
    if 't' in d['props']:
        props['t'] = (np.arange(16.0).reshape(4, 2, 2) - 5) * 0.5
        props['t1'] = (np.arange(4.0).reshape(4, 1, 1) + 2) * 0.5
    if d.get('m_id') or 'rare' in d['props']:
        props['m_id'] = np.array([7, 7, 9, 9])
    if 'rare' in d['props']:
        props.update(diameter=A([1.0, 0.5, 2.0, 1.5], 'angstrom'), density=A([2.5, 1.25, 8.0, 0.5], 'g/cm^3'), mu=A([[0.5, 0, -1], [1, 2, 0.25], [0, 0, 0], [-0.125, 1, 1]], 'e*angstrom'),
                     espin=np.array([1, -1, 0, 1]), eradius=A([0.5, 1.0, 0.25, 2.0], 'angstrom'), eflag=np.array([0, 1, 1, 0]), bflag=np.array([1, 0, 1, 1]),
                     mass=A([1.0, 26.5, 63.5, 12.0], 'amu'), volume=A([1.0, 8.0, 0.125, 27.0], 'angstrom^3'))
    atoms = am.Atoms(atype=atype, pos=A(rel @ V + o, 'angstrom'), **props)
    symbols = (['Al', 'Cu', 'Ni'][:nt]) if d['symbols'] else None
    pbc = [c == 'p' for c in d['pbc']]
    return am.System(atoms=atoms, box=am.Box(vects=A(V, 'angstrom'), origin=A(o, 'angstrom')), pbc=pbc, symbols=symbols)


def snapshot(s):
    return (s.box.vects.tolist(), s.box.origin.tolist(), [bool(x) for x in s.pbc], tuple(s.symbols),
            {k: np.array(s.atoms.view[k]).tolist() for k in s.atoms.prop()})


def do_dump(s, c):
    fmt, o = c['fmt'], c['opts']
    if fmt == 'atom_data':
        text, info = s.dump('atom_data', atom_style=o['atom_style'], units=o['units'], float_format=o['ff'], safecopy=True)
        return text, {'units': o['units'], 'atom_style': o['atom_style']}
    if fmt == 'atom_dump':
        names = ['atom_id', 'atype', 'spos' if o['scaled'] else 'pos'] + [p for p in ('velocity', 'charge', 'w', 'w1', 't', 't1') if p in s.atoms.prop()]
        sys2 = s
        text, pinfo = sys2.dump('atom_dump', lammps_units=o['units'], prop_name=names, float_format=o['ff'], return_prop_info=True)
        return text, {'lammps_units': o['units'], 'prop_info': pinfo}
    if fmt == 'table':
        names = ['atype', 'pos'] + [p for p in ('velocity', 'charge', 'w', 'w1', 't', 't1') if p in s.atoms.prop()]
        units = [None, 'scaled' if o['scaled'] else 'angstrom'] + [{'velocity': 'angstrom/ps', 'charge': 'e'}.get(p) for p in names[2:]]
        pin = [{'prop_name': n, 'unit': u, 'shape': tuple(s.atoms.view[n].shape[1:])} for n, u in zip(names, units)]
        if o['withid']:
            s = _with_ids(s)
            pin = [{'prop_name': 'atom_id', 'table_name': 'id'}] + pin
        text, pinfo = s.dump('table', prop_info=pin, float_format=o['ff'], return_prop_info=True)
        return text, {'prop_info': pinfo, 'box': s.box}
    text = s.dump('poscar', coordstyle=o['style'], box_scale=float(o['scale']), float_format=o['ff'])
    return text, {}


def _with_ids(s):
    from copy import deepcopy
    s2 = deepcopy(s)
    s2.atoms.atom_id = np.arange(1, s.natoms + 1)
    return s2


def perturb(text, c, rng):
    p = c['perturb']
    fmt = c['fmt']
    lines = text.split('\n')
    if p == 'none':
        return text
    if fmt == 'atom_data':
        ia = [i for i, l in enumerate(lines) if l.startswith('Atoms')][0]
        iv = [i for i, l in enumerate(lines) if l.startswith('Velocities')]
        end = iv[0] - 1 if iv else len(lines)
        rows = [i for i in range(ia + 2, end) if lines[i].strip()]
        if p == 'permute_rows':
            perm = [lines[i] for i in rows][::-1]
            for i, l in zip(rows, perm):
                lines[i] = l
            if iv:
                vr = [i for i in range(iv[0] + 2, len(lines)) if lines[i].strip()]
                perm = [lines[i] for i in vr]
                perm = perm[1:] + perm[:1]
                for i, l in zip(vr, perm):
                    lines[i] = l
        elif p == 'comments':
            lines[0] = 'LAMMPS data file written for a test  # title'
            lines = [l + '   # note' if ('xlo' in l or 'atoms' in l or (i in rows and i % 2)) else l for i, l in enumerate(lines)]
        elif p == 'blank_lines':
            out = []
            for i, l in enumerate(lines):
                out.append(l)
                if 'atom types' in l or 'zlo' in l:
                    out += ['', '']
            lines = out
        elif p == 'drop_atoms_count':
            lines = [l for l in lines if not l.strip().endswith(' atoms')]
        elif p == 'drop_bounds':
            lines = [l for l in lines if 'ylo yhi' not in l]
        elif p == 'drop_atoms_section':
            lines = lines[:ia] + (lines[iv[0]:] if iv else [])
        return '\n'.join(lines)
    if fmt == 'atom_dump' and p == 'permute_rows':
        ia = [i for i, l in enumerate(lines) if l.startswith('ITEM: ATOMS')][0]
        rows = [i for i in range(ia + 1, len(lines)) if lines[i].strip()]
        perm = [lines[i] for i in rows][::-1]
        for i, l in zip(rows, perm):
            lines[i] = l
        return '\n'.join(lines)
    if fmt == 'table':
        rows = [i for i in range(len(lines)) if lines[i].strip()]
        if p == 'permute_rows':
            perm = [lines[i] for i in rows]
            perm = perm[2:] + perm[:2]
            for i, l in zip(rows, perm):
                lines[i] = l
        elif p == 'blank_lines':
            lines = lines[:2] + [''] + lines[2:] + ['']
        return '\n'.join(lines)
    return text


def do_load(am, text, c, kw, tmpdir, tag):
    fmt = c['fmt']
    kind = c['input']
    if kind == 'string':
        src = text
    elif kind == 'path':
        src = os.path.join(tmpdir, 'f_%s.txt' % tag)
        with open(src, 'w') as f:
            f.write(text)
    else:
        src = io.BytesIO(text.encode())
    if fmt == 'atom_data':
        return am.load('atom_data', src, units=kw['units'], atom_style=kw['atom_style'] if (len(tag) % 2) else None)
    if fmt == 'atom_dump':
        return am.load('atom_dump', src, lammps_units=kw['lammps_units'], prop_info=kw['prop_info'])
    if fmt == 'table':
        return am.load('table', src, box=kw['box'], prop_info=kw['prop_info'])
    return am.load('poscar', src)


RARE_PROPS = {'molecular': ['m_id'], 'sphere': ['diameter', 'density'], 'dipole': ['mu'], 'body': ['bflag', 'mass'], 'peri': ['volume', 'density'],
              'electron': ['espin', 'eradius'], 'ellipsoid': ['eflag', 'density']}


def compare(uc, s, s2, c, tol):
    """every carried field to the printed precision: tol is the precision of one printed token in the FILE's unit of that quantity
    (0.5e-13 for %.13f, relative 0.5e-5 for %.5e); positions of a data file carry the image-flag arithmetic (x12)"""
    import atomman.lammps as lmp
    e = c['expect']
    car = e['carries']
    fmt = c['fmt']
    G = lambda x, u: uc.get_in_units(x, u)
    st = c['opts'].get('units')
    def P(kind, cmpunit, mag):
        if '%.5e' in c['opts']['ff']:
            return 0.6e-5 * mag
        if st is None or fmt == 'table':
            return 1e-9 if 'f' in c['opts']['ff'] else 1e-9 * max(mag, 1)
        fu = lmp.style.unit(st)[kind]
        return 0.6e-13 * G(uc.set_in_units(1.0, fu), cmpunit) + 1e-9
    tl = P('length', 'angstrom', 40.0)
    tol = tl
    if s2.natoms != s.natoms:
        return 'atom count %d, expected %d' % (s2.natoms, s.natoms)
    order = np.arange(s.natoms)
    if e['norm'] == 'grouped_by_type':
        order = np.argsort(s.atoms.atype, kind='stable')
    per_nonper = all(s.pbc)
    V, V2 = G(s.box.vects, 'angstrom'), G(s2.box.vects, 'angstrom')
    if fmt == 'atom_data' and not per_nonper:
        # along non-periodic directions the writer may enlarge the cell (documented); periodic vectors must be unchanged
        for i in range(3):
            if s.pbc[i] and not np.allclose(V2[i], V[i], rtol=0, atol=3 * tol):
                return 'cell vector %d changed' % i
    elif not np.allclose(V2, V, rtol=0, atol=3 * tol):
        return 'cell vectors changed'
    if car['origin'] and (per_nonper or fmt != 'atom_data') and not np.allclose(G(s2.box.origin, 'angstrom'), G(s.box.origin, 'angstrom'), rtol=0, atol=3 * tol):
        return 'cell origin changed'
    if not np.array_equal(np.asarray(s2.atoms.atype), np.asarray(s.atoms.atype)[order]):
        return 'atom types changed (%s -> %s)' % (np.asarray(s.atoms.atype)[order].tolist(), np.asarray(s2.atoms.atype).tolist())
    p1, p2 = G(s.atoms.pos, 'angstrom')[order], G(s2.atoms.pos, 'angstrom')
    if fmt == 'poscar' or (fmt == 'table' and not car['origin']):
        pass
    if not np.allclose(p2, p1, rtol=0, atol=tol * 12):
        return 'positions changed (max diff %.3g)' % np.abs(p2 - p1).max()
    if car['pbc'] and [bool(x) for x in s2.pbc] != [bool(x) for x in s.pbc]:
        return 'periodic flags changed'
    if car['symbols'] and None not in s.symbols and tuple(s2.symbols) != tuple(s.symbols):
        return 'symbols changed (%s -> %s)' % (s.symbols, s2.symbols)
    carried = list(e['props']) + [x + '1' for x in ('w', 't') if x in e['props']]       # w1 / t1: the length-1-axis companions of w / t
    if 'rare' in carried:          # the style's own columns
        carried.remove('rare')
        if fmt == 'atom_data':
            carried += RARE_PROPS[c['opts']['atom_style']]
    for p in carried + (['m_id'] if c['opts'].get('atom_style') == 'full' else []):
        if p not in s2.atoms.prop():
            return 'property %s not loaded' % p
        a, b = np.asarray(s.atoms.view[p])[order], np.asarray(s2.atoms.view[p])
        if a.shape != b.shape:
            return 'property %s shape %s loaded as %s' % (p, a.shape[1:], b.shape[1:])
        u = {'velocity': 'angstrom/ps', 'charge': 'e', 'diameter': 'angstrom', 'density': 'g/cm^3', 'mu': 'e*angstrom', 'eradius': 'angstrom', 'mass': 'amu', 'volume': 'angstrom^3'}.get(p)
        tp = 1e-9
        if u:
            a, b = G(a, u), G(b, u)
            tp = P({'mu': 'dipole', 'diameter': 'length', 'eradius': 'length'}.get(p, p), u, float(np.abs(a).max()))
        elif '%.5e' in c['opts']['ff']:
            tp = 0.6e-5 * max(float(np.abs(a).max()), 1.0)
        if not np.allclose(a, b, rtol=0, atol=tp):
            return 'property %s values changed (max diff %.3g)' % (p, np.abs(a - b).max())
    return None


def replay_case(am, uc, c, tmpdir, tag, rng):
    from atomman.load import FileFormatError
    mode = '%s[%s%s]' % (c['fmt'], ','.join('%s=%s' % (k, v) for k, v in sorted(c['opts'].items()) if k != 'ff'), '')
    try:
        s = build(am, uc, dict(c['sys'], m_id=(c['opts'].get('atom_style') == 'full')))
        snap = snapshot(s)
        text, kw = do_dump(s, c)
        if snapshot(s) != snap and not (c['fmt'] == 'table' and c['opts'].get('withid')):
            return ('%s: dump modified the system it was given' % c['fmt'], mode)
    except Exception as e:
        import traceback
        tb = traceback.extract_tb(e.__traceback__)[-1]
        return ('%s: dump raised %s at %s:%s' % (c['fmt'], excname(e), tb.filename.split('/')[-1], tb.name), mode + ' ' + repr(e)[:200])
    tol = 1e-9 if '13' in c['opts']['ff'] else 2e-4
    try:
        text2 = perturb(text, c, rng)
        try:
            s2 = do_load(am, text2, c, kw, tmpdir, tag)
        except FileFormatError:
            if 'refused' in c['expect']:
                return None
            return ('%s: well-formed file rejected with the format error [%s]' % (c['fmt'], c['perturb']), mode)
        if 'refused' in c['expect']:
            return ('%s: file lacking a required section was loaded [%s]' % (c['fmt'], c['perturb']), mode)
        bad = compare(uc, s, s2, c, tol)
        if bad:
            return ('%s[%s]: %s' % (c['fmt'], c['perturb'], bad.split('(')[0].strip()), mode + ' input=%s :: %s' % (c['input'], bad))
        if c['again']:
            c2 = dict(c, perturb='none')
            text3, kw3 = do_dump(s2, c2)
            s3 = do_load(am, text3, c2, kw3, tmpdir, tag + 'b')
            bad = compare(uc, s, s3, c, tol * 2)
            if bad:
                return ('%s: second dump/load changes the system: %s' % (c['fmt'], bad.split('(')[0].strip()), mode + ' :: ' + bad)
    except Exception as e:
        import traceback
        tb = traceback.extract_tb(e.__traceback__)[-1]
        if 'refused' in c['expect']:
            return ('%s: damaged file [%s] raised %s instead of the format error' % (c['fmt'], c['perturb'], excname(e)), mode + ' ' + repr(e)[:200])
        return ('%s: load raised %s at %s:%s [%s]' % (c['fmt'], excname(e), tb.filename.split('/')[-1], tb.name, c['perturb']), mode + ' ' + repr(e)[:200])
    return None


def _chunk(args):
    cases, tmpdir, base, seed = args
    import atomman as am
    import atomman.unitconvert as uc
    import warnings
    warnings.filterwarnings('ignore')
    rng = np.random.default_rng(seed)
    return [replay_case(am, uc, c, tmpdir, '%d_%d' % (base, i), rng) for i, c in enumerate(cases)]


def run(ctx):
    quick = ctx.tier == 'quick'
    ctx.rule = ('TLC-enumerated histories (system description x format options x perturbation x input kind x once/twice), sampled per format '
                '(quick 1200, thorough 40000); non-trivial = triclinic or origin or atoms outside/on faces or perturbed or damaged file; distinct by case')
    ctx.trusted = ['TLC', 'the text perturbations of the driver (row permutation, comments, blank lines, section removal)']
    rng = np.random.default_rng(ctx.seed)
    allcases = []
    for m in ('atom_data', 'atom_dump', 'table', 'poscar'):
        r = tlc.must_pass(tlc.run('MC_RoundTrip', 'RT_%s.cfg' % m, workers=16, timeout=3000, heap='12g'), 'RT_' + m)
        ctx.add_tlc(r)
        cases = r.cases
        n = 1200 if quick else 40000
        if len(cases) > n:
            cases = [cases[i] for i in sorted(rng.permutation(len(cases))[:n])]
        allcases += cases
    import tempfile
    import shutil
    tmpd = tempfile.mkdtemp(prefix='rt_', dir=ctx.work)
    import multiprocessing as mp
    chunks = [(allcases[i::16], tmpd, i, ctx.seed + i) for i in range(16)]
    with mp.get_context('fork').Pool(16) as pool:
        results = pool.map(_chunk, chunks)
    shutil.rmtree(tmpd, ignore_errors=True)
    for (chunk, _, _, _), res in zip(chunks, results):
        for c, bad in zip(chunk, res):
            ctx.count()
            ctx.traces += 1
            d = c['sys']
            if d['cell'] == 'tri' or d['origin'] or d['place'] != 'inside' or c['perturb'] != 'none':
                ctx.nontrivial_count += 1
            if bad:
                ctx.violation(bad[0], bad[1], c)
    # ---- the smallest system (one atom) through every format, and a dump file read back WITHOUT the writer's column table
    #      (columns recognised from the ITEM: ATOMS header) in several unit styles
    import io as _io
    import atomman as am
    import atomman.unitconvert as uc
    A_ = lambda x, u: uc.set_in_units(np.array(x, dtype=float), u)
    Vt = A_([[4.0, 0, 0], [1.0, 5.0, 0], [0.5, -1.0, 6.0]], 'angstrom')
    one = am.System(atoms=am.Atoms(atype=[1], pos=A_([[1.25, 2.5, 0.75]], 'angstrom')), box=am.Box(vects=Vt), pbc=[True, True, True], symbols=['Al'])
    for fmt_, mk in (('poscar', lambda: am.load('poscar', one.dump('poscar'))),
                     ('poscar[cartesian]', lambda: am.load('poscar', one.dump('poscar', coordstyle='cartesian', box_scale=2.0))),
                     ('atom_data', lambda: am.load('atom_data', one.dump('atom_data', return_info=False, safecopy=True))),
                     ('atom_dump', lambda: am.load('atom_dump', _io.BytesIO(one.dump('atom_dump').encode()))),
                     ('table', lambda: (lambda tp: am.load('table', tp[0], box=one.box, prop_info=tp[1]))(one.dump('table', prop_name=['atype', 'pos'], return_prop_info=True)))):
        ctx.count()
        ctx.nontriv(('one-atom', fmt_))
        try:
            l1 = mk()
            if l1.natoms != 1 or np.shape(l1.atoms.pos) != (1, 3) or not np.allclose(l1.atoms.pos, one.atoms.pos, rtol=0, atol=1e-9) or int(l1.atoms.atype[0]) != 1:
                ctx.violation('%s: a one-atom system is not read back' % fmt_, 'natoms %d pos %s' % (l1.natoms, np.asarray(l1.atoms.pos).tolist()))
        except Exception as e:
            ctx.violation('%s: load raised %s for a one-atom system' % (fmt_, excname(e)), repr(e)[:200])
    four = am.System(atoms=am.Atoms(atype=[1, 2, 2, 1], pos=A_([[1, 1, 1], [2, 3, 4], [3.5, 0.5, 2], [0.25, 4, 5]], 'angstrom'),
                                    velocity=A_([[0.5, 0, 1], [1, 2, 3], [-1, 0, 0.25], [0.125, -2, 4]], 'angstrom/ps'), charge=A_([0.5, -0.5, 0.25, -0.25], 'e')),
                     box=am.Box(vects=Vt), pbc=[True, True, True])
    for un_ in ('metal', 'real', 'si', 'nano'):
        ctx.count()
        ctx.nontriv(('dump-header-columns', un_))
        try:
            txt_ = four.dump('atom_dump', lammps_units=un_, prop_name=['atom_id', 'atype', 'pos', 'velocity', 'charge'], float_format='%.13e')
            l4 = am.load('atom_dump', txt_, lammps_units=un_)
            bad_ = [k_ for k_ in ('pos', 'velocity', 'charge') if k_ not in l4.atoms.prop() or not np.allclose(l4.atoms.view[k_], four.atoms.view[k_], rtol=1e-9, atol=1e-12)]
            if bad_ or not np.allclose(l4.box.vects, four.box.vects, rtol=1e-9):
                ctx.violation('atom_dump read from its header columns: unit conversion not undone', 'units %s: %s' % (un_, bad_ or 'cell'))
        except Exception as e:
            ctx.violation('atom_dump read from its header columns raised %s' % excname(e), 'units %s %s' % (un_, repr(e)[:200]))
    from .. import umbrella
    import atomman as _am
    umbrella.run(ctx, _am, 'C08')      # cross-module histories of spec/Atomman.tla (only the steps this property owns are reported here)
    ctx.sample({'kind': 'S->C history', **allcases[len(allcases) // 2]})
    ctx.sample({'kind': 'S->C history', **allcases[7]})


def replay(path):
    import atomman as am
    import atomman.unitconvert as uc
    d = json.load(open(path))
    c = d.get('replay')
    print(json.dumps(c, indent=1)[:2500])
    bad = replay_case(am, uc, c, os.path.dirname(path), 'replay', np.random.default_rng(0))
    print('replayed:', bad)
    return 1 if bad else 0
