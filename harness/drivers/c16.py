"""C16 -- Miller index algebra, plane normals, centring conversions, index strings, family identification.
Spec: spec/Miller.tla.

S->C : TLC enumerates all index triples within the bound x cells (vectors, planes), all index strings of the grammar
       (fraction x bracket x entries) and the seven family constructors, computes the expected 4-index form, Cartesian
       vector, reduced indices, reciprocal-lattice normal, string value and family; every state is one implementation test.
C->S : arrays of any leading shape through vector3to4/4to3, plane3to4/4to3, vector_crystal_to_cartesian, reduce_indices,
       plane_crystal_to_cartesian (random right-handed dyadic cells incl. non-LAMMPS orientation) and the centring
       conversions (observed as matrices through unit vectors); Miller!VerdictMiller decides every record.
"""
import json
import warnings

import numpy as np

from .. import tlc
from ..proj import to_int, excname

Q = 2
S = 1 << 16
ANG = {'90': 90.0, '120': 120.0, 'x': 105.0, 'y': 82.0, 'z': 97.0}
LEN = {1: 3.0, 2: 4.25, 3: 5.5}


def run(ctx):
    import atomman as am
    from atomman.tools import miller
    quick = ctx.tier == 'quick'
    ctx.rule = ('S->C: every TLC state (index triple x cell, string, family); C->S: random index arrays and cells; '
                'non-trivial = indices with a zero or negative entry or a common factor, a non-orthogonal cell, a fraction or '
                'non-square bracket in a string; distinct by full input')
    ctx.trusted = ['TLC', 'harness/proj.to_int', 'float64 exactness on integer data']
    cases = []
    for m in ('vec', 'plane', 'str', 'family'):
        cfg = 'Miller_%s.cfg' % m
        if not quick and m in ('vec', 'plane'):
            cfg = tlc.write_cfg('Miller_%s_t.cfg' % m, open(tlc.MC + '/' + cfg).read().replace('IdxLo <- ILo', 'IdxLo <- ILoT').replace('IdxHi = 3', 'IdxHi = 5'))
        r = tlc.must_pass(tlc.run('MC_Miller', cfg, workers=16, timeout=3000), cfg)
        ctx.add_tlc(r)
        cases += r.cases
    ctx.exhaustive = True
    boxes = {}
    for c in cases:
        ctx.count()
        k = c['kind']
        try:
            if k in ('vec', 'plane'):
                key = json.dumps(c['v'])
                if key not in boxes:
                    boxes[key] = am.Box(vects=np.array(c['v'], dtype=float) / Q, origin=[[0.0, 0.0, 0.0], [1.5, -2.25, 0.75]][len(boxes) % 2])   # directions do not depend on the origin
                box = boxes[key]
            if k == 'vec':
                y = c['y']
                if 0 in y or min(y) < 0 or c['red'] != y:
                    ctx.nontriv(('vec', tuple(y), json.dumps(c['v'])))
                x = miller.vector3to4(y)
                if to_int(x * 3)[0] != c['x3']:
                    ctx.violation('vector3to4 wrong (S->C)', 'y=%s got %s' % (y, x.tolist()), c)
                back = miller.vector4to3(np.array(c['x3']) / 3)
                if to_int(back)[0] != y or not to_int(back)[1]:
                    ctx.violation('vector4to3 does not undo vector3to4 (S->C)', 'y=%s got %s' % (y, back.tolist()), c)
                cart = miller.vector_crystal_to_cartesian(y, box)
                if to_int(cart, Q)[0] != c['cart']:
                    ctx.violation('vector_crystal_to_cartesian wrong (S->C)', 'y=%s got %s' % (y, cart.tolist()), c)
                red = miller.reduce_indices(y)
                if [int(t) for t in red] != c['red']:
                    ctx.violation('reduce_indices wrong (S->C)', 'y=%s got %s' % (y, red.tolist()), c)
            elif k == 'plane':
                p = c['p']
                if 0 in p or min(p) < 0:
                    ctx.nontriv(('plane', tuple(p), json.dumps(c['v'])))
                p4 = miller.plane3to4(p)
                if to_int(p4)[0] != c['p4']:
                    ctx.violation('plane3to4 wrong (S->C)', 'p=%s got %s' % (p, p4.tolist()), c)
                if to_int(miller.plane4to3(p4))[0] != p:
                    ctx.violation('plane4to3 does not undo plane3to4 (S->C)', 'p=%s' % p, c)
                n = miller.plane_crystal_to_cartesian(p, box)
                N = np.array(c['n'], dtype=float)
                if abs(np.linalg.norm(n) - 1) > 1e-9 or np.linalg.norm(np.cross(n, N)) > 1e-9 * np.linalg.norm(N) or n.dot(N) <= 0:
                    ctx.violation('plane normal is not the unit reciprocal-lattice vector (S->C)', 'p=%s got %s expected direction %s' % (p, n.tolist(), c['n']), c)
            elif k == 'str':
                if c['den'] != 1 or c['num'] != 1 or not c['s'].startswith('['):
                    ctx.nontriv(('str', c['s']))
                got = miller.fromstring(c['s'])
                exp = np.array(c['e'], dtype=float) * c['num'] / c['den']
                if got.shape != exp.shape or not np.allclose(got, exp, rtol=1e-12, atol=1e-12):
                    ctx.violation('index string does not parse to the numbers it shows (S->C)', '%r -> %s expected %s' % (c['s'], got.tolist(), exp.tolist()), c)
            elif k == 'family':
                ctx.nontriv(('family', c['f']))
                l = [LEN[i] for i in c['cell']['l']]
                a = [ANG[s] for s in c['cell']['ang']]
                f = c['f']
                with warnings.catch_warnings():
                    warnings.simplefilter('ignore')
                    ctor = {'cubic': lambda: am.Box.cubic(l[0]), 'hexagonal': lambda: am.Box.hexagonal(l[0], l[2]),
                            'tetragonal': lambda: am.Box.tetragonal(l[0], l[2]), 'rhombohedral': lambda: am.Box.trigonal(l[0], a[0]),
                            'orthorhombic': lambda: am.Box.orthorhombic(*l), 'monoclinic': lambda: am.Box.monoclinic(l[0], l[1], l[2], a[1]),
                            'triclinic': lambda: am.Box.triclinic(l[0], l[1], l[2], a[0], a[1], a[2])}[f]
                    b = ctor()
                    got = b.identifyfamily()
                    got2 = am.tools.identifyfamily(am.Box(a=l[0], b=l[1], c=l[2], alpha=a[0], beta=a[1], gamma=a[2]))
                if got != c['expect'] or got2 != c['expect']:
                    ctx.violation('family constructor cell identified as another family (S->C)', '%s -> %s / %s' % (f, got, got2), c)
        except Exception as e:
            ctx.violation('%s case raised %s (S->C)' % (k, excname(e)), repr(e), c)
        ctx.traces += 1
    ctx.sample({'kind': 'S->C case', **[c for c in cases if c['kind'] == 'plane'][7]})
    ctx.sample({'kind': 'S->C case', **[c for c in cases if c['kind'] == 'str'][11]})

    # ---- C->S ------------------------------------------------------------------------------------------
    rng = np.random.default_rng(ctx.seed)
    recs = []
    nrun = 120 if quick else 1500
    hexbox = am.Box(vects=am.Box.hexagonal(3.0, 5.0).vects, origin=[-1.25, 0.5, 2.0])     # directions do not depend on the origin
    for i in range(nrun):
        L = rng.integers(2, 9, 3) * 2
        tilt = [int(rng.integers(-L[0], L[0] + 1)) if rng.random() < .7 else 0 for _ in range(3)]
        v = [[int(L[0]), 0, 0], [tilt[0], int(L[1]), 0], [tilt[1], tilt[2], int(L[2])]]
        if rng.random() < .4:
            perm = rng.permutation(3)
            sg = rng.choice([-1, 1], 3)
            Pm = np.zeros((3, 3), dtype=int)
            for j in range(3):
                Pm[perm[j], j] = sg[j]
            if round(np.linalg.det(Pm)) < 0:
                Pm[:, 0] *= -1
            v = (np.array(v) @ Pm).tolist()
        box = am.Box(vects=np.array(v, dtype=float) / Q, origin=(rng.integers(-8, 9, 3) / 4.0 if rng.random() < .6 else np.zeros(3)))
        shape = [(), (6,), (2, 3)][int(rng.integers(0, 3))]
        n = int(np.prod(shape)) if shape else 1
        Y = rng.integers(-6, 7, (n, 3))
        Y[(Y == 0).all(axis=1)] = [1, 0, -2]
        arg = Y.reshape(shape + (3,))
        arg = arg.tolist() if rng.random() < .5 else arg
        base = {'v': v, 'q': Q, 'tag': 'run%d' % i}
        try:
            x = np.reshape(miller.vector3to4(arg), (n, 4))
            if np.shape(miller.vector3to4(arg)) != shape + (4,):
                ctx.violation('vector3to4 changes the leading shape', str(shape))
            x3, ok = to_int(x * 3, 1, tol=1e-9)
            recs.append(dict(base, ev='vec3to4', y=Y.tolist(), x3=x3, ongrid=ok))
            # 4 -> 3 on integer quadruples with u+v+t = 0
            X = rng.integers(-5, 6, (n, 4))
            X[:, 2] = -(X[:, 0] + X[:, 1])
            y2, ok = to_int(np.reshape(miller.vector4to3(X.reshape(shape + (4,))), (n, 3)))
            recs.append(dict(base, ev='vec4to3', x=X.tolist(), y=y2, ongrid=ok))
            p4 = miller.plane3to4(arg)
            back = miller.plane4to3(p4)
            a4, ok1 = to_int(np.reshape(p4, (n, 4)))
            b3, ok2 = to_int(np.reshape(back, (n, 3)))
            recs.append(dict(base, ev='plane34', p=Y.tolist(), p4=a4, back=b3, ongrid=ok1 and ok2))
            cart = miller.vector_crystal_to_cartesian(arg, box)
            cc, ok = to_int(np.reshape(cart, (n, 3)), Q)
            recs.append(dict(base, ev='cart', y=Y.tolist(), c=cc, ongrid=ok))
            red = miller.reduce_indices(arg)
            recs.append(dict(base, ev='reduce', y=Y.tolist(), red=np.reshape(red, (n, 3)).astype(int).tolist()))
            # four-index input: the reduced quadruple is the input divided by the gcd of ALL FOUR entries
            red4 = np.reshape(miller.reduce_indices(X.reshape(shape + (4,))), (n, 4))
            g4 = np.array([np.gcd.reduce(np.abs(r_)) or 1 for r_ in X])
            if not np.array_equal(red4 * g4[:, None], X) or any(np.gcd.reduce(np.abs(r_.astype(int))) not in (0, 1) for r_ in red4):
                ctx.violation('reduce_indices of Miller-Bravais indices is not the input divided by the gcd of all four entries', 'x=%s got %s' % (X[:3].tolist(), red4[:3].tolist()))
            if not np.array_equal(np.reshape(arg, (n, 3)), Y) or not np.array_equal(X[:, 2], -(X[:, 0] + X[:, 1])):
                ctx.violation('an index conversion modified the array passed to it', str(shape))
            Pl = rng.integers(-5, 6, (n, 3))
            Pl[(Pl == 0).all(axis=1)] = [0, 2, -1]
            nrm = np.reshape(miller.plane_crystal_to_cartesian(Pl.reshape(shape + (3,)), box), (n, 3))
            # the same Box OBJECT given other vectors in place: the normal is that of the cell it has NOW
            if rng.random() < .5:
                b_re = am.Box(vects=np.array([[5.0, 0, 0], [1.0, 4.0, 0], [0.5, -1.0, 7.0]]))
                miller.plane_crystal_to_cartesian(Pl.reshape(shape + (3,)), b_re)
                b_re.plane_crystal_to_cartesian(Pl[0])
                if rng.random() < .5:
                    b_re.set(vects=box.vects, origin=box.origin)
                else:
                    b_re.vects = box.vects
                nre = np.reshape(miller.plane_crystal_to_cartesian(Pl.reshape(shape + (3,)), b_re), (n, 3))
                if not np.allclose(nre, nrm, rtol=0, atol=1e-12) or not np.allclose(b_re.plane_crystal_to_cartesian(Pl[0]), nrm[0], rtol=0, atol=1e-12):
                    ctx.violation('plane normal of a Box re-set in place is not that of its present cell', 'hkl=%s got %s expected %s' % (Pl[0].tolist(), nre[0].tolist(), nrm[0].tolist()))
            # narrow and unsigned integer index arrays (values up to 7 fit every integer type used here)
            for dt in (np.int8, np.int16, np.uint8):
                Pd = np.abs(Pl) if dt is np.uint8 else Pl
                nd = np.reshape(miller.plane_crystal_to_cartesian(Pd.astype(dt).reshape(shape + (3,)), box), (n, 3))
                nref = np.reshape(miller.plane_crystal_to_cartesian(Pd.astype(np.int64).reshape(shape + (3,)), box), (n, 3))
                if not np.allclose(nd, nref, rtol=0, atol=1e-12):
                    ctx.violation('plane normal depends on the integer type of the index array', '%s: hkl=%s got %s expected %s' % (np.dtype(dt).name, Pd[0].tolist(), nd[0].tolist(), nref[0].tolist()))
            V = np.array(v, dtype=float) / Q
            for k in range(n):
                d = V @ nrm[k]
                recs.append(dict(base, ev='normal', p=Pl[k].tolist(), d=[int(round(t * S)) for t in d], n2=int(round(nrm[k].dot(nrm[k]) * S)), s=S))
            # same Cartesian vector from 3- and 4-index forms in a hexagonal box (pure floats, compared on the S grid)
            c3 = miller.vector_crystal_to_cartesian(miller.vector4to3(X), hexbox)
            c4 = miller.vector_crystal_to_cartesian(X, hexbox)
            if not np.allclose(c3, c4, atol=1e-9):
                ctx.violation('4-index and 3-index forms denote different Cartesian vectors in a hexagonal box', '%s' % X.tolist())
        except Exception as e:
            ctx.violation('miller call raised %s on valid input' % excname(e), repr(e), base)
    for setting in ('p', 'a', 'b', 'c', 'i', 'f', 't1', 't2'):
        try:
            E3 = np.eye(3)
            p2c = miller.vector_primitive_to_conventional(E3, setting=setting)
            c2p = miller.vector_conventional_to_primitive(E3, setting=setting)
            a, ok1 = to_int(p2c, 6, tol=1e-9)
            b, ok2 = to_int(c2p, 1, tol=1e-9)
            recs.append({'ev': 'centring', 'setting': setting, 'p2c6': a, 'c2p': b, 'ongrid': ok1 and ok2, 'tag': setting})
            # linearity on arrays of any leading shape
            Y = rng.integers(-4, 5, (2, 3, 3))
            if not np.allclose(miller.vector_primitive_to_conventional(Y, setting=setting), Y @ p2c, atol=1e-12) or \
               not np.allclose(miller.vector_conventional_to_primitive(Y.tolist(), setting=setting), Y @ c2p, atol=1e-12):
                ctx.violation('centring conversion is not the linear map observed on unit vectors', setting)
        except Exception as e:
            ctx.violation('centring conversion raised %s' % excname(e), repr(e), setting)
    for r_ in recs:
        ctx.count()
        ctx.nontriv((r_['ev'], json.dumps(r_.get('y', r_.get('p', r_.get('x', r_.get('setting'))))), json.dumps(r_.get('v', 0))))
    ok, bads, st, tr = tlc.validate_traces('Miller_Trace', 'Miller_trace.cfg', recs, ctx.work, shards=16)
    ctx.states += st
    ctx.transitions += tr
    ctx.traces += ok
    ctx.extra['trace_records'] = len(recs)
    for b in bads:
        rec = b['record']
        ctx.violation('%s: %s%s' % (rec['ev'], b['clause'], (' [' + rec['setting'] + ']') if 'setting' in rec else ''),
                      json.dumps(rec, default=tlc._np)[:1200], {'file': b['file'], 'line': b['l']})
    ctx.sample({'kind': 'C->S record', **[r_ for r_ in recs if r_['ev'] == 'normal'][3]})
    ctx.sample({'kind': 'C->S record', **recs[-1]})


def replay(path):
    print(open(path).read()[:3000])
    return 0
