"""C19 -- LAMMPS log reading.  Spec: spec/LogFile.tla.

S->C decides: TLC writes logs (abstractly: style, runs with keyword sets / row counts / step-range relation, complete or cut
short), reads them into a Log object with append True/False from text / path / stream and flattens with every style; each
step carries the expected list of tables, version, and -- for flatten -- which run supplies each timestep.  The driver
renders the abstract log as LAMMPS prints it (documented layout), calls the real reader, and compares after every step.
"""
import datetime
import io
import json
import os

import numpy as np

from .. import tlc
from ..proj import excname

VERS = {'v1': ('29 Oct 2020', datetime.date(2020, 10, 29)), 'v2': ('3 Mar 2020 - Update 2', datetime.date(2020, 3, 3))}
INTCOLS = ('Step', 'Atoms')


def val(col, code):
    # float columns are of order 1e5 with a fractional part that is small against them (a relative comparison would not see it)
    return int(code) if col in INTCOLS else 131072 + code / 4.0


def first_steps(runs):
    out = []
    for k, r in enumerate(runs):
        if k == 0:
            out.append(0)
            continue
        pf = out[-1]
        pl = pf + 10 * (runs[k - 1]['n'] - 1)
        out.append({'cont': pl, 'gap': pl + 10, 'overlap': pf + 10, 'same': pf}[r['rel']])
    return out


def _bit(st, i):
    import zlib
    return (zlib.crc32(json.dumps([st['shape'], st['kind'], i], sort_keys=True).encode()) >> 3) % 2 == 0


def render(sh, tables):
    """abstract log -> text in the documented LAMMPS layout; tables = expected tables (cell codes) for the printed rows"""
    L = []
    b = sh['blanks']
    L.append('LAMMPS (%s)' % VERS[sh['version']][0])
    if b:
        L.append('')
    L += ['  using 1 OpenMP thread(s) per MPI task', 'units metal', 'atom_style atomic', 'Created 4 atoms', 'Setting up Verlet run ...',
          '  Unit style    : metal', '  Time step     : 0.001']
    nr = len(sh['runs'])
    for k, run in enumerate(sh['runs']):
        last = k == nr - 1
        L.append('run %d' % (10 * (run['n'] - 1)))
        if b and k % 2 == 0:
            L.append('')
        if sh['banner'] == 'old':
            L.append('Memory usage per processor = 2.53 Mbytes')
        else:
            L.append('Per MPI rank memory allocation (min/avg/max) = 3.216 | 3.216 | 3.216 Mbytes')
        cols = run['cols']
        L.append(' '.join(cols) + ' ')
        for row in tables[k]['rows']:
            L.append(' '.join(('%8d' % val(c, x)) if c in INTCOLS else ('%12s' % ('%.8g' % val(c, x))) for c, x in zip(cols, row)))
        if last and sh['trunc'] >= 0:
            break                                   # the process died here
        L.append('Loop time of 0.0123 on 1 procs for %d steps with 4 atoms' % (10 * (run['n'] - 1)))
        L.append('')
        if sh['timing']:
            L += ['Performance: 702.4 ns/day, 0.034 hours/ns, 8130.1 timesteps/s', '99.1% CPU use with 1 MPI tasks x 1 OpenMP threads', '',
                  'MPI task timing breakdown:', 'Section |  min time  |  avg time  |  max time  |%varavg| %total',
                  '---------------------------------------------------------------',
                  'Pair    | 0.0033     | 0.0033     | 0.0033     |   0.0 | 66.29', 'Neigh   | 0          | 0          | 0          |   0.0 |  0.00',
                  'Comm    | 0.0011     | 0.0011     | 0.0011     |   0.0 | 22.10', 'Other   |            | 0.0005     |            |       | 11.61', '']
            L += ['Nlocal:    4.00000 ave           4 max           4 min', 'Histogram: 1 0 0 0 0 0 0 0 0 0',
                  'Neighs:    64.0000 ave          64 max          64 min', '']
        if b:
            L.append('')
    if sh['trunc'] < 0:
        L.append('Total wall time: 0:00:00')
    return '\n'.join(L) + '\n'


def cmp_tables(log, exp_sims, exp_ver):
    sims = log.simulations
    if len(sims) != len(exp_sims):
        return 'number of simulation records %d, expected %d (one per run)' % (len(sims), len(exp_sims))
    for k, (s, e) in enumerate(zip(sims, exp_sims)):
        th = s.thermo
        if th is None:
            return 'record %d has no thermo table' % k
        if [str(c) for c in th.columns] != list(e['cols']):
            return 'record %d column names %s, expected %s' % (k, list(th.columns), e['cols'])
        if len(th) != len(e['rows']):
            return 'record %d has %d rows, expected %d' % (k, len(th), len(e['rows']))
        for j, row in enumerate(e['rows']):
            for c, x in zip(e['cols'], row):
                got = th[c].iloc[j]
                if float(got) != float(val(c, x)):
                    return 'record %d row %d column %s = %r, printed %r' % (k, j, c, got, val(c, x))
    ev = None if exp_ver == 'none' else VERS[exp_ver]
    if ev is not None:
        if log.lammps_version != ev[0]:
            return 'version string %r, expected %r' % (log.lammps_version, ev[0])
        if log.lammps_date != ev[1]:
            return 'version date %r, expected %r' % (log.lammps_date, ev[1])
    return None


def replay_history(am, h, tmpdir, tag):
    from atomman.lammps import Log
    log = Log()
    for i, st in enumerate(h):
        where = 'step %d of %s' % (i, '>'.join(s['act'] + ('(append)' if s.get('append') else '') for s in h[:i + 1]))
        try:
            if st['act'] == 'read':
                sh = st['shape']
                ntab = len(sh['runs'])
                text = render(sh, st['sims'][-ntab:])
                cutin = False
                if sh['trunc'] < 0 and sh['timing'] and _bit(st, i):
                    # the process died INSIDE the timing breakdown of its last run: every thermo row was printed, the tables are the same
                    k_ = text.rfind('MPI task timing breakdown:')
                    text = text[:text.index('\n', text.index('Pair', k_)) + 1]
                    cutin = True
                kind = st['kind']
                if kind == 'text':
                    log.read(text, append=st['append'])
                elif kind == 'path':
                    fn = os.path.join(tmpdir, 'log_%s.lammps' % tag)
                    with open(fn, 'w') as f:
                        f.write(text)
                    log.read(fn, append=st['append'])
                else:
                    log.read(io.BytesIO(text.encode()), append=st['append'])
                bad = cmp_tables(log, st['sims'], st['version'])
                if bad:
                    lastkind = ('cut inside the timing breakdown' if cutin else 'complete') if sh['trunc'] < 0 else ('cut after header' if sh['trunc'] == 0 else 'cut after rows')
                    return ('read[%s,%s]: %s' % (kind, lastkind, bad.split(',')[0].split(' = ')[0][:70]), where + ' :: ' + bad + '\n' + text[-600:])
            else:
                res = log.flatten(style=st['style']).thermo
                bad = cmp_tables(log, st['sims'], st['version'])
                if bad:
                    return ('flatten[%s] modified the stored records' % st['style'], where + ' :: ' + bad)
                if st['style'] == 'all':
                    if len(res) != st['nall']:
                        return ('flatten[all]: number of rows', where + ' got %d expected %d' % (len(res), st['nall']))
                else:
                    exp = st['expect']
                    if len(res) != len(exp) and st['style'] == 'last' and not st['endsmonotone'] and len(res) < len(exp):
                        return ('flatten[last]: timesteps that only an earlier run covers are dropped when a later run ends before it',
                                where + ' got %d rows expected %d' % (len(res), len(exp)))
                    if len(res) != len(exp):
                        lastempty = len(st['sims'][-1]['rows']) == 0
                        return ('flatten[%s]: wrong number of timesteps%s' % (st['style'], ' (final run has a header but no rows)' if lastempty else ''),
                                where + ' got %d rows expected %d' % (len(res), len(exp)))
                    for p in exp:
                        rows = res[res['Step'] == p['step']]
                        if len(rows) != 1:
                            return ('flatten[%s]: timestep not present exactly once' % st['style'], where + ' step %d appears %d times' % (p['step'], len(rows)))
                        for c, x in zip(p['cols'], p['row']):
                            if float(rows[c].iloc[0]) != float(val(c, x)):
                                return ('flatten[%s]: row taken from the wrong run' % st['style'],
                                        where + ' step %d column %s = %r expected %r (run %d)' % (p['step'], c, rows[c].iloc[0], val(c, x), p['run']))
        except Exception as e:
            import traceback
            tb = traceback.extract_tb(e.__traceback__)[-1]
            return ('%s raised %s' % (st['act'], excname(e)), where + ' ' + repr(e)[:300] + ' at %s:%s' % (os.path.basename(tb.filename), tb.lineno))
    return None


FAKE_LMP = r"""#!{python}
import sys
args = sys.argv[1:]
logfile = args[args.index('-log') + 1] if '-log' in args else 'log.lammps'
script = sys.stdin.read()
k = int(script.split('runid')[1].split()[0])
lines = ['LAMMPS (2 Aug 2023 - Update 1)', script.strip(), '',
         'Per MPI rank memory allocation (min/avg/max) = 3.2 | 3.2 | 3.2 Mbytes',
         '   Step          Temp          PotEng    ']
for n in range(3):
    step = 100 * k + 20 * n
    lines.append('%10d   %-14.8g %-14.8g' % (step, 300.0 + k + 0.125 * n, -4.0 - 0.5 * step))
lines += ['Loop time of 0.0123 on 1 procs for 100 steps with 4 atoms', '', 'Total wall time: 0:00:00', '']
text = '\n'.join(lines)
if logfile != 'none':
    with open(logfile, 'w') as f:
        f.write(text)
if '-screen' not in args:
    sys.stdout.write(text)
"""


def restart_histories(am, workdir, nrestarts):
    """atomman.lammps.run() with automatic restarts, driven by a stand-in executable that writes a well-formed log whose step range names
    the invocation: after k restarts the returned Log holds k + 1 runs IN THE ORDER IN WHICH THEY WERE PERFORMED (each further log is
    appended after the existing ones), with the printed values"""
    import stat
    import sys
    import tempfile
    import atomman.lammps as lmp
    out = []
    start = os.getcwd()
    tmp = tempfile.mkdtemp(prefix='restart_', dir=workdir)
    try:
        os.chdir(tmp)
        exe = os.path.join(tmp, 'fake_lmp')
        with open(exe, 'w') as f:
            f.write(FAKE_LMP.format(python=sys.executable))
        os.chmod(exe, os.stat(exe).st_mode | stat.S_IXUSR)
        for screen in (True, False):
            for name in os.listdir(tmp):
                if name.endswith('.lammps'):
                    os.remove(name)
            for k in range(nrestarts + 1):
                log = lmp.run(exe, script='# runid 0 \n', restart_script='# runid %d \n' % k, screen=screen)
                first = [int(sim.thermo.Step.iloc[0]) for sim in log.simulations]
                if first != [100 * m for m in range(k + 1)]:
                    out.append(('run(restart): runs are not in the order in which they were performed', 'screen=%s, after %d restarts the first steps are %s' % (screen, k, first)))
                    break
                for m, sim in enumerate(log.simulations):
                    if list(sim.thermo.columns) != ['Step', 'Temp', 'PotEng'] or [float(x) for x in sim.thermo.Temp] != [300.0 + m + 0.125 * n for n in range(3)]:
                        out.append(('run(restart): printed values of an earlier run changed', 'screen=%s, restart %d, run %d' % (screen, k, m)))
                        break
    finally:
        os.chdir(start)
        import shutil
        shutil.rmtree(tmp, ignore_errors=True)
    return out


def _chunk(args):
    hs, tmpdir, base = args
    import atomman as am
    import warnings
    warnings.filterwarnings('ignore')
    return [replay_history(am, h, tmpdir, '%d_%d' % (base, i)) for i, h in enumerate(hs)]


def run(ctx):
    import atomman as am
    quick = ctx.tier == 'quick'
    ctx.rule = ('TLC histories: every log of <= 2 runs x <= 2 rows (4 styles, 2 keyword sets, 4 step-range relations, complete / cut after '
                'rows / cut after header) read once from text/path/stream and flattened with every style (exhaustive); simulated sequences of '
                'up to 3 reads (append True/False) and flattens with <= 3 rows; non-trivial = more than one run, or a truncated final block, '
                'or a second read; distinct by construction')
    ctx.trusted = ['TLC', 'the renderer of the documented log layout in the driver (render)']
    r = tlc.must_pass(tlc.run('MC_LogFile', 'Log_exh.cfg', workers=16, timeout=3000, heap='8g'), 'Log_exh')
    ctx.add_tlc(r)
    hists = list(r.cases)
    r3 = tlc.must_pass(tlc.run('MC_LogFile', 'Log_exh3.cfg', workers=16, timeout=3000, heap='8g'), 'Log_exh3')
    ctx.add_tlc(r3)
    hists += r3.cases
    ctx.exhaustive = True
    import concurrent.futures as cf
    per = 6 if quick else 150
    with cf.ThreadPoolExecutor(16) as ex:
        futs = [ex.submit(tlc.run, 'MC_LogFile', 'Log_sim.cfg', 1, None, 6000, per, 40, ctx.seed % 100000 + 11 * i) for i in range(16)]
        for f in futs:
            rs = tlc.must_pass(f.result(), 'Log_sim')
            ctx.add_tlc(rs)
            hists += [h for h in rs.cases if len(h) == 5]
    import tempfile
    import shutil
    tmpd = tempfile.mkdtemp(prefix='logs_', dir=ctx.work)
    import multiprocessing as mp
    chunks = [(hists[i::16], tmpd, i) for i in range(16)]
    with mp.get_context('fork').Pool(16) as pool:
        results = pool.map(_chunk, chunks)
    shutil.rmtree(tmpd, ignore_errors=True)
    for (chunk, _, _), res in zip(chunks, results):
        for h, bad in zip(chunk, res):
            ctx.count()
            ctx.traces += 1
            reads = [s for s in h if s['act'] == 'read']
            if len(reads) > 1 or any(len(s['shape']['runs']) > 1 or s['shape']['trunc'] >= 0 for s in reads):
                ctx.nontrivial_count += 1
            if bad:
                ctx.violation(bad[0], bad[1], h)
    # restarts through atomman.lammps.run(): a further log is appended after the existing ones, however many there are (12 in the quick tier)
    for sig, det in restart_histories(am, ctx.work, 12 if quick else 25):
        ctx.violation(sig, det)
    ctx.count(2)
    ctx.nontrivial_count += 2
    ctx.extra['restart_sequences_through_run'] = 2
    hh = [h for h in hists if len(h) == 2 and len(h[0]['shape']['runs']) == 2][7]
    ctx.sample({'kind': 'S->C history', 'steps': [{k: v for k, v in s.items() if k != 'sims'} for s in hh]})
    ctx.sample({'kind': 'rendered log of that history', 'text': render(hh[0]['shape'], hh[0]['sims'])})


def replay(path):
    import atomman as am
    d = json.load(open(path))
    h = d.get('replay')
    print(d['detail'][:2000])
    bad = replay_history(am, h, os.path.dirname(path), 'replay')
    print('replayed:', bad)
    return 1 if bad else 0
