"""C11 -- elastic-constant representations and tensor rotation.  Spec: spec/Elastic.tla.

S->C decides: TLC enumerates (a) all 81 index tuples and 81 nine-index pairs with the Voigt entry and weight they must map to,
(b) all 24 x 24 pairs of proper signed-permutation rotations with the exactly rotated integer stiffness (and checks identity /
composition / inverse / symmetries / energy invariance on the model), (c) the 15 isotropic modulus pairs over integer Lame
constants as exact rationals.  The driver loads a stiffness with 21 distinct integers into ElasticConstants through every
representation, compares every entry of every getter, every rotated matrix, the energy of co-rotated strains, C:S, the
moduli, the point-group invariance of each crystal system's constants (3-/6-fold axes executed by the code) and the
idempotence of normalized_as.
"""
import json

import numpy as np

from .. import tlc
from ..proj import excname

PAIR9 = [(0, 0), (1, 1), (2, 2), (1, 2), (0, 2), (0, 1), (2, 1), (2, 0), (1, 0)]


def rot_axis(axis, deg):
    a = np.radians(deg)
    c, s = np.cos(a), np.sin(a)
    if axis == 'z':
        return np.array([[c, s, 0], [-s, c, 0], [0, 0, 1.0]])
    if axis == 'x':
        return np.array([[1.0, 0, 0], [0, c, s], [0, -s, c]])
    return np.array([[c, 0, -s], [0, 1.0, 0], [s, 0, c]])


def run(ctx):
    import atomman as am
    EC = am.ElasticConstants
    quick = ctx.tier == 'quick'
    ctx.rule = ('all 81 ijkl tuples, 81 nine-index pairs, 576 (g,h) pairs of proper signed permutations, 15 modulus pairs x 20 integer '
                '(lambda, mu); non-trivial = shear index involved / g or h not the identity / every modulus pair; distinct by case')
    ctx.trusted = ['TLC', 'numpy.einsum for contracting observed arrays (energy, C:S)']
    ri = tlc.must_pass(tlc.run('MC_Elastic', 'Elastic_index.cfg', workers=4, timeout=3000), 'Elastic_index')
    rg = tlc.must_pass(tlc.run('MC_Elastic', 'Elastic_group.cfg', workers=16, timeout=3000, heap='8g'), 'Elastic_group')
    rs = tlc.must_pass(tlc.run('MC_Elastic', 'Elastic_iso.cfg', workers=4, timeout=3000), 'Elastic_iso')
    for r in (ri, rg, rs):
        ctx.add_tlc(r)
    ctx.exhaustive = True
    gens = [c for c in rg.cases if c['kind'] == 'generators'][0]
    Cgen = np.array(gens['cgen'], dtype=float)
    strains = [np.array(e, dtype=float) for e in gens['strains']]
    base = EC(Cij=Cgen)
    Cijkl = base.Cijkl
    Cij9 = base.Cij9
    Sij = base.Sij
    Sijkl = base.Sijkl
    # ---- (a) index maps, every getter ----------------------------------------------------------------------
    for c in ri.cases:
        ctx.count()
        if c['kind'] == 'index':
            i, j, k, l = [x - 1 for x in c['ijkl']]
            if c['vi'] > 3 or c['vj'] > 3:
                ctx.nontriv(('index', tuple(c['ijkl'])))
            if Cijkl[i, j, k, l] != c['c']:
                ctx.violation('Cijkl entry is not the Voigt entry it denotes', 'ijkl=%s got %s expected C[%d,%d]=%s' % (c['ijkl'], Cijkl[i, j, k, l], c['vi'], c['vj'], c['c']), c)
            want = Sij[c['vi'] - 1, c['vj'] - 1] / c['w']
            if abs(Sijkl[i, j, k, l] - want) > 1e-12 * abs(Sij).max():
                ctx.violation('Sijkl entry is not S[V,V] over the shear weights', 'ijkl=%s got %r expected %r' % (c['ijkl'], Sijkl[i, j, k, l], want), c)
        else:
            I, J = [x - 1 for x in c['ij']]
            if I > 2 or J > 2:
                ctx.nontriv(('nine', tuple(c['ij'])))
            if Cij9[I, J] != c['c']:
                ctx.violation('Cij9 entry wrong', 'IJ=%s got %s expected %s' % (c['ij'], Cij9[I, J], c['c']), c)
        ctx.traces += 1
    # every setter from the arrays DEFINED by the specification (built here from the TLC cases, not from the getters)
    spec4 = np.zeros((3, 3, 3, 3))
    spec9 = np.zeros((9, 9))
    for c in ri.cases:
        if c['kind'] == 'index':
            i, j, k, l = [x - 1 for x in c['ijkl']]
            spec4[i, j, k, l] = c['c']
        else:
            spec9[c['ij'][0] - 1, c['ij'][1] - 1] = c['c']
    specS4 = np.zeros((3, 3, 3, 3))
    Sexact = np.linalg.inv(Cgen)
    for c in ri.cases:
        if c['kind'] == 'index':
            i, j, k, l = [x - 1 for x in c['ijkl']]
            specS4[i, j, k, l] = Sexact[c['vi'] - 1, c['vj'] - 1] / c['w']
    for name, arr, tol in (('Cijkl', spec4, 0), ('Cij9', spec9, 0), ('Sij', Sexact, 1e-9), ('Sijkl', specS4, 1e-9)):
        ctx.count()
        try:
            got = EC(**{name: arr}).Cij
            if np.abs(got - Cgen).max() > tol * 500:
                ctx.violation('setting %s does not reproduce the stiffness' % name, 'max diff %r' % np.abs(got - Cgen).max())
            o2 = EC()
            setattr(o2, name, arr)
            if np.abs(o2.Cij - Cgen).max() > tol * 500:
                ctx.violation('assigning %s does not reproduce the stiffness' % name, '')
        except Exception as e:
            ctx.violation('setting %s raised %s' % (name, excname(e)), repr(e)[:200])
    # C:S = symmetric identity
    I4 = np.einsum('ijmn,mnkl->ijkl', Cijkl, Sijkl)
    sym = 0.5 * (np.einsum('ik,jl->ijkl', np.eye(3), np.eye(3)) + np.einsum('il,jk->ijkl', np.eye(3), np.eye(3)))
    if np.abs(I4 - sym).max() > 1e-9:
        ctx.violation('stiffness contracted with compliance is not the symmetric identity', 'max diff %r' % np.abs(I4 - sym).max())
    # ---- (b) group action --------------------------------------------------------------------------------------
    cache = {}
    for c in rg.cases:
        if c['kind'] != 'group':
            continue
        ctx.count()
        g = np.array(c['g'], dtype=float)
        h = np.array(c['h'], dtype=float)
        if not (np.array_equal(g, np.eye(3)) and np.array_equal(h, np.eye(3))):
            ctx.nontriv(('group', json.dumps(c['g']), json.dumps(c['h'])))
        try:
            key = json.dumps(c['g'])
            if key not in cache:
                cache[key] = base.transform(g)
            tg = cache[key]
            if not np.array_equal(tg.Cij, np.array(c['cg'], dtype=float)):
                ctx.violation('rotated stiffness is not the tensor-rotated stiffness', 'g=%s max diff %r' % (c['g'], np.abs(tg.Cij - np.array(c['cg'])).max()), c)
            thg = tg.transform(h)
            if not np.array_equal(thg.Cij, np.array(c['chg'], dtype=float)):
                ctx.violation('rotation is not a group action (composition)', 'g=%s h=%s' % (c['g'], c['h']), c)
            if np.array_equal(h, g.T) and not np.array_equal(thg.Cij, Cgen):
                ctx.violation('rotating back does not restore the stiffness (inverse)', 'g=%s' % c['g'], c)
            if np.array_equal(h, np.eye(3)):
                c4 = tg.Cijkl
                for e, en in zip(strains, c['energy']):
                    e2 = g @ e @ g.T
                    w = np.einsum('ijkl,ij,kl->', c4, e2, e2)
                    if w != en:
                        ctx.violation('strain energy of a co-rotated strain changed under rotation', 'g=%s got %r expected %r' % (c['g'], w, en), c)
                for st in ('Voigt', 'Reuss', 'Hill'):
                    if abs(tg.bulk(st) - base.bulk(st)) > 1e-9 * abs(base.bulk(st)) or abs(tg.shear(st) - base.shear(st)) > 1e-9 * abs(base.shear(st)):
                        ctx.violation('%s modulus not rotation invariant' % st, 'g=%s' % c['g'], c)
        except Exception as e:
            ctx.violation('transform raised %s' % excname(e), repr(e)[:200], c)
        ctx.traces += 1
    # rational rotations from integer quaternions and generic angles: composition / inverse / energy to 1e-9
    rng = np.random.default_rng(ctx.seed)
    for t in range(40 if quick else 400):
        ctx.count()
        q = rng.integers(-2, 3, 4)
        if not q.any():
            continue
        a, b, cc, d = q / np.linalg.norm(q)
        R = np.array([[a * a + b * b - cc * cc - d * d, 2 * (b * cc + a * d), 2 * (b * d - a * cc)],
                      [2 * (b * cc - a * d), a * a - b * b + cc * cc - d * d, 2 * (cc * d + a * b)],
                      [2 * (b * d + a * cc), 2 * (cc * d - a * b), a * a - b * b - cc * cc + d * d]])
        # every other second rotation is a SMALL one (hundredths of a degree up to a fraction of a degree): a rotation is a rotation however small
        R2 = rot_axis('xyz'[int(rng.integers(0, 3))], 17.0 + 31 * t if t % 2 == 0 else float(rng.choice([0.2, 0.1, 0.05, 0.01, -0.15, 1e-3])))
        try:
            t1 = base.transform(R)
            t12 = t1.transform(R2)
            tdirect = base.transform(R2 @ R)
            if np.abs(t12.Cij - tdirect.Cij).max() > 1e-8 * 500:
                ctx.violation('rotation is not a group action for general rotations', 'max diff %r' % np.abs(t12.Cij - tdirect.Cij).max())
            t2 = base.transform(R2)
            e2s = R2 @ strains[0] @ R2.T
            w2 = np.einsum('ijkl,ij,kl->', t2.Cijkl, e2s, e2s)
            w0s = np.einsum('ijkl,ij,kl->', Cijkl, strains[0], strains[0])
            if abs(w2 - w0s) > 1e-9 * abs(w0s):
                ctx.violation('strain energy not invariant under a general co-rotation', 'second rotation: %r vs %r' % (w2, w0s))
            back = t1.transform(R.T)
            if np.abs(back.Cij - Cgen).max() > 1e-8 * 500:
                ctx.violation('inverse rotation does not restore the stiffness (general rotation)', '')
            e = strains[t % 2]
            w0 = np.einsum('ijkl,ij,kl->', Cijkl, e, e)
            e2 = R @ e @ R.T
            w1 = np.einsum('ijkl,ij,kl->', t1.Cijkl, e2, e2)
            if abs(w1 - w0) > 1e-9 * abs(w0):
                ctx.violation('strain energy not invariant under a general co-rotation', '%r vs %r' % (w1, w0))
            if abs(t1.bulk() - base.bulk()) > 1e-9 * base.bulk() or abs(t1.shear() - base.shear()) > 1e-9 * base.shear():
                ctx.violation('Hill moduli not invariant under a general rotation', '')
        except Exception as ex:
            ctx.violation('transform raised %s on a proper rotation' % excname(ex), repr(ex)[:200])
    # ---- the same tensor in a much smaller / larger unit (power of two: every representation scales exactly or to rounding) ----------
    for k_ in (-40, -27, 30):
        ctx.count()
        ctx.nontriv(('scale', k_))
        sc_ = 2.0 ** k_
        try:
            es = EC(Cij=Cgen * sc_)
            if not np.array_equal(es.Cij, Cgen * sc_) or not np.array_equal(EC(Cijkl=base.Cijkl * sc_).Cij, Cgen * sc_) or \
               not np.array_equal(EC(Cij9=base.Cij9 * sc_).Cij, Cgen * sc_):
                ctx.violation('representations of a stiffness of small or large magnitude do not round-trip', 'scale 2^%d' % k_)
            if np.abs(es.Sij * sc_ - base.Sij).max() > 1e-9 * np.abs(base.Sij).max() or \
               np.abs(EC(Sij=base.Sij / sc_).Cij / sc_ - Cgen).max() > 1e-9 * np.abs(Cgen).max():
                ctx.violation('compliance of a stiffness of small or large magnitude is not its inverse', 'scale 2^%d' % k_)
            iso = EC(E=2.9 * sc_, nu=0.45)
            if abs(iso.Cij[3, 3] - (iso.Cij[0, 0] - iso.Cij[0, 1]) / 2) > 1e-9 * abs(iso.Cij[0, 0]) or iso.Cij[3, 3] <= 0:
                ctx.violation('isotropic pair (E, nu) gives the wrong stiffness', 'scale 2^%d: C44 %r, (C11-C12)/2 %r' % (k_, iso.Cij[3, 3], (iso.Cij[0, 0] - iso.Cij[0, 1]) / 2))
        except Exception as ex:
            ctx.violation('stiffness of small or large magnitude raised %s' % excname(ex), repr(ex)[:200] + ' scale 2^%d' % k_)
    # ---- crystal systems: named constants sit where they are named, tensor invariant under the point group ------------------
    G = {k: [np.array(g, dtype=float) for g in v] for k, v in gens['gens'].items()}
    extra = {'hexagonal': [rot_axis('z', 60.0)], 'rhombohedral': [rot_axis('z', 120.0)], 'isotropic': [rot_axis('x', 33.0), rot_axis('z', 71.0)]}
    systems = {
        'isotropic': dict(C11=250.0, C12=110.0),
        'cubic': dict(C11=250.0, C12=150.0, C44=120.0),
        'hexagonal': dict(C11=160.0, C33=180.0, C12=90.0, C13=70.0, C44=45.0),
        'tetragonal': dict(C11=260.0, C33=300.0, C12=170.0, C13=130.0, C44=100.0, C66=60.0),
        'rhombohedral': dict(C11=500.0, C33=490.0, C12=160.0, C13=110.0, C14=-23.0, C44=145.0),
        'orthorhombic': dict(C11=320.0, C22=200.0, C33=230.0, C12=70.0, C13=75.0, C23=80.0, C44=65.0, C55=78.0, C66=79.0),
        'monoclinic': dict(C11=320.0, C22=200.0, C33=230.0, C12=70.0, C13=75.0, C23=80.0, C15=-8.0, C25=5.0, C35=11.0, C44=65.0, C46=-4.0, C55=78.0, C66=79.0),
    }
    for name, kw in systems.items():
        ctx.count()
        ctx.nontriv(('system', name))
        try:
            ec = EC(**kw)
            Cm = ec.Cij
            for k_, v_ in kw.items():
                I, J = int(k_[1]) - 1, int(k_[2]) - 1
                if Cm[I, J] != v_ or Cm[J, I] != v_:
                    ctx.violation('%s constant %s is not the Voigt entry it names' % (name, k_), 'got %r' % Cm[I, J])
            if name in ('hexagonal', 'rhombohedral'):
                # the documented alternative parameter sets (2 C66 = C11 - C12): any two of C11, C12, C66, or all three
                c66 = (kw['C11'] - kw['C12']) / 2
                for drop in ('C12', 'C11', None):
                    alt = dict(kw, C66=c66)
                    if drop:
                        del alt[drop]
                    ctx.count()
                    ctx.nontriv(('system', name, 'without', drop))
                    Ca = EC(**alt).Cij
                    if np.abs(Ca - Cm).max() > 1e-9 * np.abs(Cm).max():
                        ctx.violation('%s constants given as %s describe another tensor than C11, C12 do' % (name, '+'.join(sorted(alt))),
                                      'max diff %r' % np.abs(Ca - Cm).max())
            for g in G[name] + extra.get(name, []):
                tg = ec.transform(g)
                if np.abs(tg.Cij - Cm).max() > 1e-8 * np.abs(Cm).max():
                    ctx.violation('%s constants are not invariant under a symmetry rotation of the %s system' % (name, name),
                                  'g=%s max diff %r' % (np.round(g, 3).tolist(), np.abs(tg.Cij - Cm).max()))
            if name == 'monoclinic':          # normalized_as does not offer this system (refusal, not part of the clause)
                continue
            n1 = ec.normalized_as(name)
            n2 = n1.normalized_as(name)
            if np.abs(n1.Cij - Cm).max() > 1e-9 * np.abs(Cm).max():
                ctx.violation('normalized_as(%s) changes constants that already have that symmetry' % name, '')
            if not np.array_equal(n1.Cij, n2.Cij):
                ctx.violation('normalized_as(%s) is not idempotent' % name, '')
            # idempotence on a generic (triclinic) tensor too
            m1 = base.normalized_as(name)
            m2 = m1.normalized_as(name)
            if np.abs(m1.Cij - m2.Cij).max() > 1e-9 * 500:
                ctx.violation('normalized_as(%s) is not idempotent on a generic tensor' % name, 'max diff %r' % np.abs(m1.Cij - m2.Cij).max())
            # a generic tensor normalised as tetragonal / rhombohedral keeps C16 / C15 (the lower-symmetry classes): only the n-fold axis
            gnorm = {'tetragonal': [G['tetragonal'][0] if np.array_equal(G['tetragonal'][0][2], [0, 0, 1]) and G['tetragonal'][0][0][1] != 0 else G['tetragonal'][1]],
                     'rhombohedral': [rot_axis('z', 120.0)]}.get(name, G[name] + extra.get(name, []))
            for g in gnorm:
                if np.abs(m1.transform(g).Cij - m1.Cij).max() > 1e-8 * 500:
                    ctx.violation('normalized_as(%s) result lacks the symmetry of the %s system' % (name, name), 'g=%s' % np.round(g, 3).tolist())
        except Exception as ex:
            ctx.violation('%s constants raised %s' % (name, excname(ex)), repr(ex)[:300])
    # ---- (c) isotropic modulus pairs ---------------------------------------------------------------------------------------
    for c in rs.cases:
        ctx.count()
        if c['lam'] == 0 and 'nu' in (c['a'], c['b']) and ('lambda' in (c['a'], c['b'])):
            continue                      # lambda = 0 and nu = 0 do not fix the material
        ctx.nontriv(('iso', c['a'], c['b'], c['lam'], c['mu']))
        va, vb = c['va'][0] / c['va'][1], c['vb'][0] / c['vb'][1]
        if c['lam'] == 0 and {c['a'], c['b']} in ({'nu', 'lambda'},):
            continue
        try:
            ec = EC(**{c['a']: va, c['b']: vb})
            got = (ec.Cij[0, 0], ec.Cij[0, 1], ec.Cij[3, 3])
            want = (c['c11'], c['c12'], c['c44'])
            if not np.allclose(got, want, rtol=1e-9, atol=1e-9):
                ctx.violation('isotropic pair (%s, %s) gives the wrong stiffness' % tuple(sorted((c['a'], c['b']))),
                              '%s=%r %s=%r -> %s expected %s' % (c['a'], va, c['b'], vb, got, want), c)
        except Exception as ex:
            ctx.violation('isotropic pair (%s, %s) raised %s' % (tuple(sorted((c['a'], c['b']))) + (excname(ex),)), repr(ex)[:200], c)
        ctx.traces += 1
    ctx.sample({'kind': 'S->C index case', **[c for c in ri.cases if c['kind'] == 'index' and c['w'] == 4][0]})
    ctx.sample({'kind': 'S->C group case', **{k: v for k, v in [c for c in rg.cases if c['kind'] == 'group'][77].items() if k != 'energy'}})
    ctx.sample({'kind': 'S->C isotropic case', **rs.cases[123]})


def replay(path):
    print(open(path).read()[:3000])
    return 0
