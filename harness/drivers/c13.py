"""C13 -- generated dislocation configurations.  Spec: spec/DislConfig.tla.

C->S decides: the driver builds Dislocation objects for fcc / bcc / hcp (and a primitive fcc cell) over slip systems with screw,
edge and mixed line directions, m/n axis assignments, size multipliers, every offered shift, core centres, both boundary shapes
and several widths, generates monopole and periodic-array configurations and logs integer / fixed-point records; TLC decides:
reference system = rotated shifted perfect crystal (lattice congruence through the returned transform), every reference atom
kept and displaced by the elastic solution at its reference position (modulo the line period), periodic along the line only,
boundary atoms = atoms outside the stated region (geometry recomputed independently), deletion count of the periodic array from
integer cell determinants, injective old_id map, no overlapping atoms, disregistry accumulating to one Burgers vector.
"""
import json

import numpy as np

from .. import tlc
from ..proj import to_int, excname

S = 1 << 16


def ucells(am):
    a = 4.0
    fcc = am.System(atoms=am.Atoms(atype=[1, 1, 1, 1], pos=[[0, 0, 0], [.5, .5, 0], [.5, 0, .5], [0, .5, .5]]), box=am.Box.cubic(a), scale=True, symbols='Al')
    bcc = am.System(atoms=am.Atoms(atype=[1, 1], pos=[[0, 0, 0], [.5, .5, .5]]), box=am.Box.cubic(3.0), scale=True, symbols='Fe')
    b2 = am.System(atoms=am.Atoms(atype=[1, 2], pos=[[0, 0, 0], [.5, .5, .5]]), box=am.Box.cubic(3.0), scale=True, symbols=['Ni', 'Al'])
    hcp = am.System(atoms=am.Atoms(atype=[1, 1], pos=[[1 / 3, 2 / 3, .25], [2 / 3, 1 / 3, .75]]), box=am.Box.hexagonal(3.0, 4.9), scale=True, symbols='Mg')
    hcp0 = am.System(atoms=am.Atoms(atype=[1, 1], pos=[[0, 0, 0], [1 / 3, 2 / 3, .5]]), box=am.Box.hexagonal(3.0, 4.9), scale=True, symbols='Mg')
    return {'hcp0': (hcp0, [[0, 0, 0, 1], [2, 4, 3, 1]], 6), 'fcc': (fcc, [[0, 0, 0, 1], [2, 2, 0, 1], [2, 0, 2, 1], [0, 2, 2, 1]], 4), 'bcc': (bcc, [[0, 0, 0, 1], [1, 1, 1, 1]], 2),
            'B2': (b2, [[0, 0, 0, 1], [1, 1, 1, 2]], 2), 'hcp': (hcp, [[4, 8, 3, 1], [8, 4, 9, 1]], 12)}


SYSTEMS = [
    ('fcc', [0.5, -0.5, 0], [1, 1, -2], [1, 1, 1], 'edge'), ('fcc', [0.5, -0.5, 0], [1, -1, 0], [1, 1, 1], 'screw'), ('fcc', [0.5, -0.5, 0], [1, 0, -1], [1, 1, 1], 'mixed'),
    ('bcc', [0.5, 0.5, 0.5], [1, 1, 1], [1, -1, 0], 'screw'), ('bcc', [0.5, 0.5, 0.5], [1, 1, -2], [1, -1, 0], 'edge'), ('bcc', [0.5, 0.5, 0.5], [0, 0, 1], [1, -1, 0], 'mixed'),
    ('B2', [1, 0, 0], [0, 0, 1], [0, 1, 0], 'edge'), ('B2', [1, 0, 0], [1, 0, 0], [0, 1, 0], 'screw'),
    ('hcp', [1 / 3, 1 / 3, -2 / 3, 0], [1, 1, -2, 0], [0, 0, 0, 1], 'screw'), ('hcp', [1 / 3, 1 / 3, -2 / 3, 0], [1, -1, 0, 0], [0, 0, 0, 1], 'edge'),
    # non-basal hcp systems: only with the default m='y', n='z' (line along the a box vector); see DESIGN 6.4
    ('hcp0', [0, 1, 0], [-2, -1, 2], [1, 0, 1], 'pyrI_a_edge'), ('hcp0', [1, 1, 1], [1, 1, 1], [1, 1, -2], 'pyrII_ca_screw'),
    # <a> screw on the first-order pyramidal plane: the rotated cell is tilted WITHIN the plane normal to the line (box faces not orthogonal)
    ('hcp0', [1, 0, 0], [1, 0, 0], [0, 1, 1], 'pyrI_a_screw'),
]
MN = [('y', 'z'), ('x', 'y'), ('z', 'x'), ('y', 'x')]


def signed_region_distance(shape, box, line, width, pos):
    """independent geometry of the stated region; > 0 outside"""
    V = box.vects
    o = box.origin
    vl = V[line] / np.linalg.norm(V[line])
    others = [i for i in range(3) if i != line]
    faces = []                                   # (unit outward normal, point on face)
    ctr = o + 0.5 * (V[0] + V[1] + V[2])
    for j, k in (others, others[::-1]):
        n = np.cross(V[line], V[j])
        n = n / np.linalg.norm(n)
        for p0 in (o, o + V[k]):
            nn = n if np.dot(n, p0 - ctr) > 0 else -n
            faces.append((nn, p0))
    if shape == 'cylinder':
        dists = [abs(np.dot(nn, p0)) for nn, p0 in faces]           # axis passes through the Cartesian origin
        R = min(dists) - width
        perp = pos - np.outer(pos @ vl, vl)
        return np.linalg.norm(perp, axis=1) - R
    d = np.full(len(pos), -np.inf)
    for nn, p0 in faces:
        d = np.maximum(d, (pos - p0) @ nn + width)
    return d


def run(ctx):
    import atomman as am
    import atomman.unitconvert as uc
    from atomman.defect import Dislocation, disregistry
    quick = ctx.tier == 'quick'
    ctx.rule = ('10 slip systems (fcc / bcc / B2 / hcp; screw, edge, mixed) x 4 m/n assignments x size multipliers x offered shifts x centres x '
                'boundary shapes / widths; every configuration is non-trivial; distinct by input')
    ctx.trusted = ['TLC', 'independent region geometry and lattice projection in the driver (numpy)', 'rounding of logged floats']
    rng = np.random.default_rng(ctx.seed)
    U = ucells(am)
    Cs = {'fcc': am.ElasticConstants(C11=110., C12=60., C44=30.), 'bcc': am.ElasticConstants(C11=240., C12=140., C44=115.),
          'B2': am.ElasticConstants(C11=200., C12=130., C44=110.), 'hcp': am.ElasticConstants(C11=60., C33=62., C12=26., C13=21., C44=17.)}
    Cs['hcp0'] = Cs['hcp']
    recs = []
    refusals = 0
    ncfg = 26 if quick else 260
    for ci in range(ncfg):
        cname, burgers, xi, hkl, kind = SYSTEMS[ci % len(SYSTEMS)]
        m, n = MN[(ci // len(SYSTEMS)) % len(MN)] if ci >= len(SYSTEMS) else MN[ci % 2]
        if ci == len(SYSTEMS) + 1:
            m, n = 'y', 'x'          # one anti-cyclic assignment in every tier (known findings of DESIGN 6.2 live there)
        if cname == 'hcp0':
            m, n = 'y', 'z'
        ucell, basis, dd = U[cname]
        tag = 'c%d:%s:%s:m%sn%s' % (ci, cname, kind, m, n)
        try:
            d = Dislocation(ucell, Cs[cname], burgers=burgers, ξ_uvw=xi, slip_hkl=hkl, m=m, n=n)
        except ValueError as e:
            refusals += 1
            continue
        except Exception as e:
            ctx.violation('Dislocation constructor raised %s' % excname(e), repr(e)[:200] + ' ' + tag)
            continue
        line, cut, mot = d.lineindex, d.cutindex, d.motionindex
        uv = np.array(d.uvws_prim if hasattr(d, 'uvws_prim') and d.uvws_prim is not None else d.uvws, dtype=float)
        if uv.shape[1] == 4:
            uv = np.array([[r[0] - r[2], r[1] - r[2], r[3]] for r in uv])
        detuvw = int(round(abs(np.linalg.det(uv))))
        # the rotation that takes the rotated cell back onto the crystal, derived from the rotated cell itself (rows of its box are
        # the lattice vectors uvws); the reference system is judged through the rotation it really has, and Dislocation.transform
        # (the frame in which the elastic solution is evaluated) has to be that rotation -- for the anti-cyclic m/n assignments
        # (m='y',n='x' etc.) it once differed by a half turn about the slip-plane normal (fix in DESIGN 6.1)
        ucp = d.ucell_prim if hasattr(d, 'uvws_prim') and d.uvws_prim is not None and hasattr(d, 'ucell_prim') else ucell
        Teff = (np.linalg.inv(uv @ ucp.box.vects) @ d.rcell.box.vects).T
        if not np.allclose(Teff @ Teff.T, np.identity(3), atol=1e-8):
            Teff = np.asarray(d.transform)
        if cname != 'hcp0' and not np.allclose(Teff, np.asarray(d.transform), atol=1e-8):
            ctx.violation('the elastic solution is evaluated in a frame that is not the orientation of the rotated crystal (%s m/n assignment)' % ('cyclic' if (m, n) in (('y', 'z'), ('x', 'y'), ('z', 'x')) else 'anti-cyclic'), tag)
        for variant in range(2 if quick else 3):
            # shift indices: a non-zero one first, then an explicit 0 on the SAME object (the periodic array is generated first)
            si = [len(d.shifts) - 1, 0, int(rng.integers(0, len(d.shifts)))][variant]
            mults = [int(rng.integers(1, 3)) * 2 for _ in range(3)]
            mults[line] = int(rng.integers(1, 3))
            mults[mot] += 2
            width = [2.0, 3.5, float(rng.choice([0.0, 2.0, 3.5]))][variant]
            shape = ['cylinder', 'box', ['cylinder', 'box'][ci % 2]][variant]
            center = np.zeros(3)
            if variant == 1:
                center[mot] = 0.37
                center[cut] = -0.21
            vtag = '%s:s%d:%s:w%s:%s' % (tag, si, 'x'.join(map(str, mults)), width, shape)
            # ---------------- periodic array ------------------------------------------------------------------------------------
            try:
                full = d.rcell.supersize(*[(0, mults[i]) if i == line else (-mults[i] // 2, mults[i] // 2) for i in range(3)])
                base, disl = d.periodicarray(sizemults=list(mults), shiftindex=si, center=center, boundarywidth=width, return_base_system=True)
                # the systems kept on the object are the returned ones (the mapping back to the reference atoms is read from either)
                if d.base_system.natoms != base.natoms or d.disl_system.natoms != disl.natoms or \
                        not np.array_equal(d.base_system.atoms.pos, base.atoms.pos) or not np.array_equal(d.disl_system.atoms.pos, disl.atoms.pos):
                    ctx.violation('periodicarray: the reference / dislocation systems kept on the object are not the returned ones',
                                  'stored %d / %d atoms, returned %d / %d %s' % (d.base_system.natoms, d.disl_system.natoms, base.natoms, disl.natoms, vtag))
                # cell rows in lattice coordinates (x4): (box.vects @ transform) expressed in the unit cell's vectors
                rows = (np.array([full.box.vects[i] for i in range(3)]) @ Teff) @ np.linalg.inv(ucell.box.vects)
                newrows = (disl.box.vects @ Teff) @ np.linalg.inv(ucell.box.vects)
                r4, ok1 = to_int(rows * 12, 1, tol=1e-6)
                n4, ok2 = to_int(newrows * 12, 1, tol=1e-6)
                if not (ok1 and ok2):
                    ctx.violation('periodic array cell is not a lattice cell shortened by half a Burgers vector', vtag)
                nl = am.NeighborList(system=disl, cutoff=0.6)
                mind = 0.6
                if nl.coord.max() > 0:
                    k = int(np.argmax(nl.coord))
                    mind = float(np.min(disl.dmag(k, nl[k])))
                pa = (base.atoms.pos - d.shifts[si]) @ Teff
                rela = ucell.box.position_cartesian_to_relative(pa) * dd
                xa, oka = to_int(rela, 1, tol=1e-6)
                refa = [xa[k] + [int(base.atoms.atype[k])] for k in range(base.natoms)]
                recs.append({'ev': 'array', 'tag': vtag, 'ref': refa, 'basis': basis, 'dd': dd, 'ongrid': bool(oka), 'rows4': r4, 'newrows4': n4, 'nfull': int(full.natoms), 'oldid': [int(x) for x in disl.atoms.old_id],
                             'pbc': [bool(x) for x in disl.pbc], 'cut': cut + 1, 'basetype': [int(t) for t in base.atoms.atype],
                             'fulltype': [int(t) for t in full.atoms.atype], 'mindist': int(round(mind * S)), 'cutoff': int(round(0.5 * S))})
                # disregistry of the array across the slip plane: from (nearly) nothing to (nearly) one Burgers vector
                if cname != 'hcp0' and not center.any() and (m, n) in (('y', 'z'), ('x', 'y'), ('z', 'x')):      # (anti-cyclic assignments: known findings, DESIGN 6.2)
                    coord_, dis_ = disregistry(base, disl, m=d.dislsol.m, n=d.dislsol.n, planepos=np.zeros(3))
                    b_ = d.dislsol.burgers
                    bn_ = np.linalg.norm(b_)
                    pr_ = dis_ @ b_ / bn_ ** 2
                    tot_ = abs(pr_[0] - pr_[-1])
                    perp_ = np.abs(dis_ - np.outer(pr_, b_)).max() / bn_
                    if len(coord_) >= 12 and mults[mot] >= 6:        # a profile long enough for its ends to be in the far field
                      recs.append({'ev': 'disreg', 'tag': vtag + ':array', 'total': int(round(tot_ * S)), 's': S, 'perp': int(round(perp_ * S)), 'tail': int(round(0.25 * S)),
                                   'lo': int(round(float(pr_.min()) * S)), 'hi': int(round(float(pr_.max()) * S))})
            except ValueError as e:
                if 'slip plane' in str(e) or 'not an integer' in str(e) or 'Deleted atom mismatch' in str(e):
                    refusals += 1
                else:
                    ctx.violation('periodicarray raised ValueError (%s)' % str(e)[:40], repr(e)[:200] + ' ' + vtag)
            except Exception as e:
                import traceback
                tb = traceback.extract_tb(e.__traceback__)[-1]
                ctx.violation('periodicarray raised %s at %s:%s' % (excname(e), tb.filename.split('/')[-1], tb.name), repr(e)[:200] + ' ' + vtag)
            # ---------------- monopole ----------------------------------------------------------------------------------------
            try:
                base, disl = d.monopole(sizemults=list(mults), shiftindex=si, center=center, boundaryshape=shape, boundarywidth=width, return_base_system=True)
                if d.base_system.natoms != base.natoms or not np.array_equal(d.base_system.atoms.pos, base.atoms.pos) or not np.array_equal(d.disl_system.atoms.pos, disl.atoms.pos):
                    ctx.violation('monopole: the reference / dislocation systems kept on the object are not the returned ones', vtag)
                u = d.dislsol.displacement(base.atoms.pos - center)
                res = disl.atoms.pos - base.atoms.pos - u
                period = np.linalg.norm(base.box.vects[line])
                # reference crystal in lattice coordinates of the unit cell
                po = (base.atoms.pos - d.shifts[si]) @ Teff          # the REQUESTED shift, not whatever the object holds
                rel = ucell.box.position_cartesian_to_relative(po) * dd
                xi_, ok = to_int(rel, 1, tol=1e-6)
                ref = [xi_[k] + [int(base.atoms.atype[k])] for k in range(base.natoms)]
                dist = signed_region_distance(shape, base.box, line, width, disl.atoms.pos) if width > 0 else -np.ones(base.natoms)
                nt = base.natypes
                retyped = [bool(t > nt) for t in disl.atoms.atype]
                recs.append({'ev': 'monopole', 'tag': vtag, 'ref': ref, 'basis': basis, 'dd': dd, 'copies': detuvw * int(np.prod(mults)), 'ongrid': ok,
                             'nbase': int(base.natoms), 'ndisl': int(disl.natoms), 'pbc': [bool(x) for x in disl.pbc], 'line': line + 1,
                             'res': [[int(round(v * S)) for v in r] for r in res], 'period': int(round(period * S)), 'tol': 4,
                             'dist': [int(round(v * S)) for v in dist], 'band': 8, 'retyped': retyped if width > 0 else [False] * base.natoms,
                             'dtype': [int(t) for t in disl.atoms.atype], 'btype': [int(t) for t in base.atoms.atype], 'ntypes': int(nt)})
                # the boundary region alone, for a spread of widths (cheap records: the region surface sweeps through the atomic planes)
                if variant == 1:
                    # for the centred cubic cells the same problem is also posed on the conventional cell WITH its centring setting named
                    # (the rotated cell is then built from the primitive cell) and the width given in units of the conventional a
                    dc = None
                    if cname in ('fcc', 'bcc') and (m, n) == ('y', 'z'):
                        try:
                            dc = Dislocation(ucell, Cs[cname], burgers=burgers, ξ_uvw=xi, slip_hkl=hkl, m=m, n=n, conventional_setting={'fcc': 'f', 'bcc': 'i'}[cname])
                        except ValueError:
                            dc = None
                    for wk in rng.uniform(1.0, 5.0, 6 if quick else 12):
                        for shp in ('box', 'cylinder'):
                            try:
                                if dc is not None and rng.random() < .5:
                                    mc_ = [2 * x for x in mults]
                                    bs, dl = dc.monopole(sizemults=mc_, center=center, boundaryshape=shp, boundarywidth=float(wk) / ucell.box.a, boundaryscale=True, return_base_system=True)
                                    dist = signed_region_distance(shp, bs.box, dc.lineindex, float(wk), dl.atoms.pos)
                                    recs.append({'ev': 'boundary', 'tag': '%s:w%.4f:%s:scaled:setting' % (tag, wk, shp), 'dist': [int(round(v * S)) for v in dist], 'band': 8,
                                                 'retyped': [bool(t > nt) for t in dl.atoms.atype], 'dtype': [int(t) for t in dl.atoms.atype],
                                                 'btype': [int(t) for t in bs.atoms.atype], 'ntypes': int(nt)})
                                    continue
                                bs, dl = d.monopole(sizemults=list(mults), shiftindex=si, center=center, boundaryshape=shp, boundarywidth=float(wk), return_base_system=True)
                            except AssertionError as e:
                                if 'radius must be positive' in str(e):      # the width leaves no region in this small system: refusal
                                    refusals += 1
                                    continue
                                raise
                            dist = signed_region_distance(shp, bs.box, line, float(wk), dl.atoms.pos)
                            recs.append({'ev': 'boundary', 'tag': '%s:w%.4f:%s' % (tag, wk, shp), 'dist': [int(round(v * S)) for v in dist], 'band': 8,
                                         'retyped': [bool(t > nt) for t in dl.atoms.atype], 'dtype': [int(t) for t in dl.atoms.atype],
                                         'btype': [int(t) for t in bs.atoms.atype], 'ntypes': int(nt)})
                # disregistry accumulates to one Burgers vector (tail of the Volterra field beyond the system width)
                planepos = np.zeros(3)
                coord, dis = disregistry(base, disl, m=d.dislsol.m, n=d.dislsol.n, planepos=planepos)
                b = d.dislsol.burgers
                bn = np.linalg.norm(b)
                tot = dis[0] - dis[-1] if np.dot(dis[0] - dis[-1], b) > 0 else dis[-1] - dis[0]
                L = abs(coord[-1] - coord[0])
                yv = base.atoms.pos @ d.dislsol.n
                dpl = np.min(yv[yv > 0]) - np.max(yv[yv < 0])
                tail = 4 * dpl / (np.pi * L) + 0.02
                if cname != 'hcp0':      # non-basal hcp: the disregistry clause is not claimed (DESIGN 6.4)
                  recs.append({'ev': 'disreg', 'tag': vtag + ':monopole', 'total': int(round(np.dot(tot, b) / bn ** 2 * S)), 's': S,
                               'perp': int(round(np.linalg.norm(tot - np.dot(tot, b) / bn ** 2 * b) / bn * S)), 'tail': int(round(tail * S))})
            except ValueError as e:
                if 'slip plane' in str(e):
                    refusals += 1
                else:
                    ctx.violation('monopole raised ValueError (%s)' % str(e)[:40], repr(e)[:200] + ' ' + vtag)
            except AssertionError as e:
                if 'radius must be positive' in str(e):          # the boundary width leaves no cylinder in this small system: refusal
                    refusals += 1
                else:
                    ctx.violation('monopole raised AssertionError', repr(e)[:200] + ' ' + vtag)
            except Exception as e:
                import traceback
                tb = traceback.extract_tb(e.__traceback__)[-1]
                ctx.violation('monopole raised %s at %s:%s' % (excname(e), tb.filename.split('/')[-1], tb.name), repr(e)[:200] + ' ' + vtag)
    ctx.extra['documented_refusals_accepted'] = refusals
    for r_ in recs:
        ctx.count()
        ctx.nontriv(r_['tag'] + r_['ev'])
    ok, bads, st_, tr = tlc.validate_traces('Disl_Trace', 'Disl_trace.cfg', recs, ctx.work, shards=16, timeout=7200)
    ctx.states += st_
    ctx.transitions += tr
    ctx.traces += ok
    ctx.extra['records'] = {k: sum(1 for r_ in recs if r_['ev'] == k) for k in ('monopole', 'array', 'disreg', 'boundary')}
    import copy
    neg = []
    for r_ in recs:
        if r_['ev'] == 'monopole' and not any(n_['ev'] == 'monopole' for n_ in neg):
            c1 = copy.deepcopy(r_); c1['res'][0][r_['line'] % 3] += 64; neg.append(c1)
            c2 = copy.deepcopy(r_); c2['ref'][0][0] += 1; neg.append(c2)
            c3 = copy.deepcopy(r_); c3['pbc'] = [True, True, True]; neg.append(c3)
        if r_['ev'] == 'array' and not any(n_['ev'] == 'array' for n_ in neg):
            c1 = copy.deepcopy(r_); c1['oldid'][0] = c1['oldid'][1]; neg.append(c1)
            c2 = copy.deepcopy(r_); c2['nfull'] += 1; neg.append(c2)
        if r_['ev'] == 'disreg' and not any(n_['ev'] == 'disreg' for n_ in neg):
            c1 = copy.deepcopy(r_); c1['total'] = c1['total'] // 2; neg.append(c1)
    ctx.extra['corrupted_records_rejected'] = tlc.must_reject('Disl_Trace', 'Disl_trace.cfg', neg, ctx.work, 'C13')
    for b in bads:
        rec = b['record']
        t = rec['tag'].split(':')
        short = {k: v for k, v in rec.items() if k not in ('ref', 'res', 'dist', 'retyped', 'dtype', 'btype', 'oldid', 'basetype', 'fulltype')}
        if t[3] in ('mynx', 'mxnz', 'mzny') and rec['ev'] == 'array' and b['clause'] == 'overlapping_atoms_across_the_periodic_directions':
            # one finding for the whole input class (anti-cyclic m/n assignment), whatever crystal and character it shows up with
            ctx.violation('array[anti-cyclic m/n assignment]: overlapping_atoms_across_the_periodic_directions', json.dumps(short, default=tlc._np)[:1200], {'file': b['file'], 'line': b['l']})
            continue
        ctx.violation('%s[%s,%s,%s]: %s' % (rec['ev'], t[1], t[2], t[3], b['clause']), json.dumps(short, default=tlc._np)[:1200], {'file': b['file'], 'line': b['l']})
    for ev in ('array', 'disreg'):
        rr = [r_ for r_ in recs if r_['ev'] == ev]
        if rr:
            ctx.sample({'kind': 'C->S record', **{k: (v if not isinstance(v, list) or len(v) < 20 else v[:8]) for k, v in rr[0].items()}})


def replay(path):
    print(open(path).read()[:3000])
    return 0
