#!/venv/bin/python
"""Confirm seeded changes independently and run the registered checks against them.

  seedtest.py import <worktree> <pid>        copy <worktree>/_seed/seed_* into /verif/seeded/<pid>_<x>/ after confirming, in the
                                             scratch worktree, that demo.py exits 1 with the patch / 0 without and that the 83
                                             baseline tests still pass with it
  seedtest.py run <seed-id> [tier]           apply seeded/<seed-id>/patch.diff to /repo, run ./check <pid>, undo it straight afterwards
"""
import json
import os
import re
import subprocess
import sys

VERIF = os.path.dirname(os.path.dirname(os.path.abspath(__file__)))
PY = '/venv/bin/python'


def sh(cmd, cwd=None, env=None, timeout=3600):
    e = dict(os.environ)
    if env:
        e.update(env)
    p = subprocess.run(cmd, shell=True, cwd=cwd, env=e, stdout=subprocess.PIPE, stderr=subprocess.STDOUT, text=True, timeout=timeout)
    return p.returncode, p.stdout


def touches_pyx(patch):
    return '.pyx' in open(patch).read()


def confirm(wt, sd):
    """returns dict with what was run"""
    patch = os.path.join(sd, 'patch.diff')
    demo = os.path.join(sd, 'demo.py')
    env = {'PYTHONPATH': wt, 'OMP_NUM_THREADS': '1'}
    out = {}
    sh('git checkout -- atomman', cwd=wt)
    pyx = touches_pyx(patch)
    if pyx:
        sh('%s setup.py build_ext --inplace' % PY, cwd=wt)
    rc0, o0 = sh('%s %s' % (PY, demo), cwd=wt, env=env)
    out['demo_clean_rc'] = rc0
    rc, o = sh('git apply %s' % patch, cwd=wt)
    if rc != 0:
        out['apply_failed'] = o[-500:]
        return out
    if pyx:
        rcb, ob = sh('%s setup.py build_ext --inplace' % PY, cwd=wt)
        out['rebuild_rc'] = rcb
    rc1, o1 = sh('%s %s' % (PY, demo), cwd=wt, env=env)
    out['demo_patched_rc'] = rc1
    out['demo_patched_tail'] = o1[-600:]
    rct, ot = sh('%s -m pytest -q -p no:cacheprovider --timeout=900 --continue-on-collection-errors tests' % PY, cwd=wt, env=env)
    m = re.search(r'(\d+) failed, (\d+) passed', ot) or re.search(r'()(\d+) passed', ot)
    out['tests'] = ot.strip().splitlines()[-1] if ot.strip() else ''
    out['tests_ok'] = bool(m and int(m.group(2)) + int(m.group(1) or 0) == 86 and int(m.group(1) or 0) in (0, 3))
    sh('git checkout -- atomman', cwd=wt)
    if pyx:
        sh('%s setup.py build_ext --inplace' % PY, cwd=wt)
    out['confirmed'] = (rc0 == 0 and rc1 != 0 and out['tests_ok'])
    return out


def do_import(wt, pid):
    res = []
    for name in sorted(os.listdir(os.path.join(wt, '_seed'))):
        sd = os.path.join(wt, '_seed', name)
        if not os.path.exists(os.path.join(sd, 'patch.diff')):
            continue
        c = confirm(wt, sd)
        x = name.replace('seed_', '')
        if os.environ.get('SEED_ROUND') == '2':
            x = {'a': 'c', 'b': 'd'}.get(x, x)
        if os.environ.get('SEED_ROUND') == '3':
            x = {'a': 'e', 'b': 'f'}.get(x, x)
        if os.environ.get('SEED_ROUND') == '4':
            x = {'a': 'g', 'b': 'h'}.get(x, x)
        if os.environ.get('SEED_ROUND') == '5':
            x = {'a': 'i', 'b': 'j'}.get(x, x)
        sid = '%s_%s' % (pid, x)
        print(sid, json.dumps({k: c[k] for k in c if k != 'demo_patched_tail'}))
        if c.get('confirmed'):
            dst = os.path.join(VERIF, 'seeded', sid)
            os.makedirs(dst, exist_ok=True)
            for f in ('patch.diff', 'demo.py', 'notes.txt'):
                if os.path.exists(os.path.join(sd, f)):
                    open(os.path.join(dst, f), 'w').write(open(os.path.join(sd, f)).read())
            meta = {'property': pid, 'seed': sid, 'source': 'independent sub-agent given only the property text and a scratch worktree',
                    'needs_to_manifest': open(os.path.join(sd, 'notes.txt')).read()[:1500] if os.path.exists(os.path.join(sd, 'notes.txt')) else '',
                    'confirmed_by_me': {'worktree': 'scratch worktree under /tmp (removed afterwards)', **{k: c[k] for k in c if k != 'demo_patched_tail'}},
                    'check_results': {}}
            json.dump(meta, open(os.path.join(dst, 'meta.json'), 'w'), indent=1)
        res.append((sid, c.get('confirmed')))
    return res


def do_run(sid, tier='quick', pid=None):
    d = os.path.join(VERIF, 'seeded', sid)
    meta = json.load(open(os.path.join(d, 'meta.json')))
    pid = pid or meta['property']
    patch = os.path.join(d, 'patch.diff')
    rc, o = sh('git -C /repo status --porcelain --untracked-files=no')
    if o.strip():
        print('REFUSING: /repo has uncommitted changes:\n' + o)
        return 2
    rc, o = sh('git -C /repo apply %s' % patch)
    if rc != 0:
        print('apply failed', o)
        return 2
    try:
        rc, o = sh('./check %s --tier %s' % (pid, tier), cwd=VERIF, timeout=7200)
    finally:
        sh('git -C /repo checkout -- .')
        if touches_pyx(patch):
            sh('%s harness/build.py' % PY, cwd=VERIF)
    viol = [l for l in o.splitlines() if l.startswith('VIOLATION') or 'violated:' in l]
    caught = rc == 1 and any(l.startswith('VIOLATION') for l in o.splitlines())
    print('%s on %s[%s]: rc=%d caught=%s' % (sid, pid, tier, rc, caught))
    for l in viol[:6]:
        print('   ', l[:300])
    if rc not in (0, 1):
        print(o[-1500:])
    meta.setdefault('check_results', {})['%s:%s' % (pid, tier)] = {'rc': rc, 'caught': caught, 'first_violations': [l[:300] for l in viol[:4]]}
    json.dump(meta, open(os.path.join(d, 'meta.json'), 'w'), indent=1)
    # restore the evidence file of the unchanged tree
    sh('git checkout -- evidence/%s.json' % pid, cwd=VERIF)
    return 0 if caught else 1


if __name__ == '__main__':
    if sys.argv[1] == 'import':
        do_import(sys.argv[2], sys.argv[3])
    elif sys.argv[1] == 'run':
        sys.exit(do_run(sys.argv[2], sys.argv[3] if len(sys.argv) > 3 else 'quick', sys.argv[4] if len(sys.argv) > 4 else None))
