#!/venv/bin/python
"""Regenerate /verif/MANIFEST.json from the table below (single source of truth for what is claimed)."""
import json
import os
import sys

VERIF = os.path.dirname(os.path.dirname(os.path.abspath(__file__)))
BASE_OFF = ("cd /repo && env -u ATOMMAN_VERIF /venv/bin/python -m pytest -ra -q -p no:cacheprovider --timeout=900 "
            "--continue-on-collection-errors")
TECH = 'explicit TLA+ specification checked by TLC; '

CLAIMED = {k: (v['mods'], TECH + v['tech'], v['text'], v['note'], v['ref'])
           for k, v in json.load(open(os.path.join(VERIF, 'harness', 'claims.json'))).items()}

NOT_YET = {}


def main():
    props = [json.loads(l) for l in open(os.path.join(VERIF, 'properties.jsonl'))]
    checks = []
    na = []
    for p in props:
        pid = p['id']
        if pid in CLAIMED:
            mods, tech, text, note, ref = CLAIMED[pid]
            checks.append({
                'property_id': pid,
                'quick_cmd': './check %s --tier quick' % pid,
                'thorough_cmd': './check %s --tier thorough' % pid,
                'evidence_file': 'evidence/%s.json' % pid,
                'replay_cmd_template': './check %s --replay {path}' % pid,
                'engine': 'tlc',
                'level_claimed': {'category': 'model_checking', 'text': text, 'design_ref': ref},
                'level_note': note,
                'technique': tech,
            })
        else:
            na.append({'property_id': pid,
                       'reason': NOT_YET.get(pid, 'not claimed yet: the TLA+ module and conformance driver for this '
                                                  'property are not built at this commit (see DESIGN.md 9 build order)')})
    man = {
        'version': 1,
        'setup_cmd': './setup.sh',
        'hooks': {'guard': 'ATOMMAN_VERIF',
                  'enable': 'no in-repo hooks: the recorder wraps atomman\'s public API from /verif (harness/); '
                            './check sets ATOMMAN_VERIF=1 for its own process only',
                  'baseline_off_cmd': BASE_OFF,
                  'source_commits': [],
                  'add_only': True},
        'engines': [{'name': 'tlc', 'path': '/opt/veriftools/tla/tla2tools.jar',
                     'serves_properties': sorted(CLAIMED),
                     'kind_free_text': 'TLC 1.8 explicit-state model checker over spec/*.tla; harness/tlc.py runs it, '
                                       'parses @@CASE (S->C cases) and @@BAD/@@DONE (C->S trace verdicts)'}],
        'checks': checks,
        'notes': 'Exit codes: 0 held, 1 VIOLATION, 2 machinery failure. VERIF_SEED and VERIF_TIER honoured.',
        'not_applicable': na,
    }
    with open(os.path.join(VERIF, 'MANIFEST.json'), 'w') as f:
        json.dump(man, f, indent=1)
    try:
        import jsonschema
        jsonschema.validate(man, json.load(open('/root/.vp/MANIFEST.schema.json')))
        print('MANIFEST.json valid; claimed:', ' '.join(sorted(CLAIMED)))
    except ImportError:
        print('jsonschema not available; not validated')


if __name__ == '__main__':
    main()
