#!/venv/bin/python
"""Regenerate /verif/MANIFEST.json from the table below (single source of truth for what is claimed)."""
import json
import os
import sys

VERIF = os.path.dirname(os.path.dirname(os.path.abspath(__file__)))
BASE_OFF = ("cd /repo && env -u ATOMMAN_VERIF /venv/bin/python -m pytest -ra -q -p no:cacheprovider --timeout=900 "
            "--continue-on-collection-errors")
TECH = 'explicit TLA+ specification checked by TLC; '

# pid -> (spec modules, technique, level text, level note, design ref)
CLAIMED = {
    'C02': (['Dvect', 'MC_Dvect', 'MC_DvectNeg', 'Dvect_Trace', 'Lattice', 'Arith'],
            TECH + 'S->C replay of every TLC state into atomman.dvect/dmag + C->S trace validation of recorded '
                   'dvect/dmag/System.dvect/System.dmag/displacement calls by TLC (Dvect_Trace)',
            'TLC checks the nearest-image theorem (27-candidate search = exhaustive lattice search with proven per-axis '
            'radius, under the property\'s antecedent) on every state of a bounded domain of cells/pbc/point pairs, '
            'and every state is replayed into the real extension with the TLC-computed expectation; independently '
            'recorded executions (random dyadic cells, all pbc, all broadcast shapes, System and displacement entry '
            'points) are accepted or rejected record by record by the TLA+ trace specification.',
            'Inputs are restricted to dyadic grids (exact in float64, 32-bit safe in TLC); non-grid reals are not '
            'claimed. Trusted: TLC, the int projection harness/proj.to_int, numpy array plumbing in the driver.',
            'DESIGN.md 3/C02'),
    'C03': (['Nlist', 'MC_Nlist', 'Nlist_Trace', 'Lattice', 'Arith'],
            TECH + 'TLC model of the bin/ghost/sweep algorithm (AlgPairs = ExpectedPairs, with a negative configuration '
                   'that must fail) + S->C replay of every TLC state into NeighborList + C->S trace validation of recorded '
                   'neighbour lists by TLC (Nlist_Trace: every pair re-decided by nearest-of-27 < cutoff)',
            'TLC explores an algorithm-shaped model of nlist (superbox, bins, ghosts, swept-bin set, 13-bin stencil) on '
            'domains that contain faces and offsets within 0.01 cutoff of faces and checks it against the property-level '
            'pair set; every state is replayed into the real extension; recorded neighbour lists of random dyadic systems '
            '(sparse, dense >40 atoms per bin, clustered, faces, all storage sizes, dump/load) are accepted or rejected '
            'by the TLA+ trace specification, which recomputes every pair.',
            'Dyadic-grid inputs only; atoms inside the cell. The algorithm layer only directs the search: a VIOLATION is '
            'raised solely by the property-level pair set. Trusted: TLC, float64 exactness on the grid.',
            'DESIGN.md 3/C03'),
}

NOT_YET = {}


def main():
    props = [json.loads(l) for l in open(os.path.join(VERIF, 'properties.jsonl'))]
    checks = []
    na = []
    for p in props:
        pid = p['id']
        if pid in CLAIMED:
            mods, tech, text, note, ref = CLAIMED[pid]
            checks.append({
                'property_id': pid,
                'quick_cmd': './check %s --tier quick' % pid,
                'thorough_cmd': './check %s --tier thorough' % pid,
                'evidence_file': 'evidence/%s.json' % pid,
                'replay_cmd_template': './check %s --replay {path}' % pid,
                'engine': 'tlc',
                'level_claimed': {'category': 'model_checking', 'text': text, 'design_ref': ref},
                'level_note': note,
                'technique': tech,
            })
        else:
            na.append({'property_id': pid,
                       'reason': NOT_YET.get(pid, 'not claimed yet: the TLA+ module and conformance driver for this '
                                                  'property are not built at this commit (see DESIGN.md 9 build order)')})
    man = {
        'version': 1,
        'setup_cmd': './setup.sh',
        'hooks': {'guard': 'ATOMMAN_VERIF',
                  'enable': 'no in-repo hooks: the recorder wraps atomman\'s public API from /verif (harness/); '
                            './check sets ATOMMAN_VERIF=1 for its own process only',
                  'baseline_off_cmd': BASE_OFF,
                  'source_commits': [],
                  'add_only': True},
        'engines': [{'name': 'tlc', 'path': '/opt/veriftools/tla/tla2tools.jar',
                     'serves_properties': sorted(CLAIMED),
                     'kind_free_text': 'TLC 1.8 explicit-state model checker over spec/*.tla; harness/tlc.py runs it, '
                                       'parses @@CASE (S->C cases) and @@BAD/@@DONE (C->S trace verdicts)'}],
        'checks': checks,
        'notes': 'Exit codes: 0 held, 1 VIOLATION, 2 machinery failure. VERIF_SEED and VERIF_TIER honoured.',
        'not_applicable': na,
    }
    with open(os.path.join(VERIF, 'MANIFEST.json'), 'w') as f:
        json.dump(man, f, indent=1)
    try:
        import jsonschema
        jsonschema.validate(man, json.load(open('/root/.vp/MANIFEST.schema.json')))
        print('MANIFEST.json valid; claimed:', ' '.join(sorted(CLAIMED)))
    except ImportError:
        print('jsonschema not available; not validated')


if __name__ == '__main__':
    main()
