#!/venv/bin/python
"""Regenerate the seeded-change table of DESIGN.md (between the SEEDTABLE markers) from seeded/*/meta.json."""
import glob, json, os, re
V = os.path.dirname(os.path.dirname(os.path.abspath(__file__)))
rows = ['| seed | change / what it needs (from the seeder\'s notes) | result | first violation reported |', '|---|---|---|---|']
for d in sorted(glob.glob(V + '/seeded/*')):
    m = json.load(open(d + '/meta.json'))
    notes = open(d + '/notes.txt').read().strip().split('\n') if os.path.exists(d + '/notes.txt') else ['']
    first = ' '.join(notes)[:230].replace('|', '/')
    cr = m.get('check_results', {})
    res = '; '.join('%s: %s' % (k, 'caught' if v['caught'] else 'missed') for k, v in cr.items())
    fv = ''
    for k, v in cr.items():
        if v['caught'] and v['first_violations']:
            fv = v['first_violations'][0].split('::')[0].replace('violated:', '').strip()[:110]
    rows.append('| %s | %s | %s | %s |' % (m['seed'], first, res, fv))
s = open(V + '/DESIGN.md').read()
a, b = '<!-- SEEDTABLE BEGIN -->', '<!-- SEEDTABLE END -->'
s = s[:s.index(a) + len(a)] + '\n' + '\n'.join(rows) + '\n' + s[s.index(b):]
open(V + '/DESIGN.md', 'w').write(s)
print(len(rows) - 2, 'seeds')
