#!/usr/bin/env python3-vt
"""Validate MANIFEST.json and evidence/*.json against the given schemas (run with python3-vt)."""
import glob, json, sys, os
import jsonschema
V = os.path.dirname(os.path.dirname(os.path.abspath(__file__)))
ok = True
def chk(path, schema):
    global ok
    try:
        jsonschema.validate(json.load(open(path)), json.load(open(schema)))
        print('valid  ', path)
    except Exception as e:
        ok = False
        print('INVALID', path, str(e)[:300])
chk(V + '/MANIFEST.json', '/root/.vp/MANIFEST.schema.json')
for p in sorted(glob.glob(V + '/evidence/*.json')):
    chk(p, '/root/.vp/EVIDENCE.schema.json')
for i, l in enumerate(open(V + '/properties.jsonl')):
    try:
        jsonschema.validate(json.loads(l), json.load(open('/root/.vp/PROPERTIES.schema.json')))
    except Exception as e:
        ok = False; print('INVALID property line', i, str(e)[:200])
sys.exit(0 if ok else 1)
