"""Projection of float results onto the integer grids the specification works on."""
import numpy as np


def to_int(a, q=1, tol=1e-7):
    """float array (exactly representable dyadics expected) -> (nested int list, on_grid flag)."""
    x = np.asarray(a, dtype=float) * q
    if not np.all(np.isfinite(x)) or np.any(np.abs(x) > 2.0e9):
        return np.zeros(np.shape(x), dtype=int).tolist(), False
    r = np.rint(x)
    ok = bool(np.all(np.abs(x - r) <= tol * np.maximum(1.0, np.abs(x))))
    return r.astype(np.int64).tolist(), ok


def ints(a):
    return np.asarray(a).astype(np.int64).tolist()


def excname(e):
    return type(e).__name__
