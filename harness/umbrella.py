"""Cross-module histories (spec/Atomman.tla): one abstract System driven through replication, point defects, translation + wrap,
file / data-model round trips, with neighbour-list observations in between.  Each property's check replays the same TLC
histories and reports only the steps it is responsible for (the other steps are reported by their own property's check)."""
import io
import json

import numpy as np

from . import tlc
from .proj import excname

Q = 4
OWNER = {'supersize': 'C04', 'vacancy': 'C15', 'interstitial': 'C15', 'substitutional': 'C15', 'translate_wrap': 'C05',
         'neighbors': 'C03', 'roundtrip:atom_data': 'C08', 'roundtrip:atom_dump': 'C08', 'roundtrip:poscar': 'C08',
         'roundtrip:system_model_json': 'C10', 'roundtrip:system_model_xml': 'C10'}


def _canon(Pi, V, o):
    """exact integer wrap into [0,1): a float coordinate of 1-1e-16 sits on the upper face, which is the same lattice point"""
    V = [[int(x) for x in r] for r in V]
    a, b, c = V
    cr = lambda u, v: [u[1] * v[2] - u[2] * v[1], u[2] * v[0] - u[0] * v[2], u[0] * v[1] - u[1] * v[0]]
    adjT = [cr(b, c), cr(c, a), cr(a, b)]            # rows: b x c, c x a, a x b  -> rel_i = (p-o) . adjT[i] / det
    det = sum(a[i] * adjT[0][i] for i in range(3))
    out = []
    for p in Pi:
        d = [int(p[i]) - int(o[i]) for i in range(3)]
        fl = [(sum(d[j] * adjT[i][j] for j in range(3)) * (1 if det > 0 else -1)) // abs(det) for i in range(3)]
        out.append([int(p[k]) - sum(fl[i] * V[i][k] for i in range(3)) for k in range(3)])
    return out


def proj(s, with_q=True):
    P = s.atoms.pos * Q
    Pi = np.rint(P)
    if np.abs(P - Pi).max() > 1e-6:
        return 'offgrid'
    Pi = _canon(Pi, np.rint(s.box.vects * Q), np.rint(s.box.origin * Q))
    q = s.atoms.q if with_q and 'q' in s.atoms.prop() else np.zeros(s.natoms)
    return sorted((int(a), int(b), int(c), int(t), int(qq)) for (a, b, c), t, qq in zip(Pi, s.atoms.atype, q))


def want(st, with_q=True):
    C = _canon([a['p'] for a in st['atoms']], st['v'], st['o'])
    return sorted((p[0], p[1], p[2], a['t'], a['q'] if with_q else 0) for p, a in zip(C, st['atoms']))


def step_key(st):
    return st['act'] + (':' + st['args']['fmt'] if st['act'] == 'roundtrip' else '')


def replay(am, h, init):
    """returns (owner property, signature, detail) of the first failing step, or None"""
    from atomman import defect
    from DataModelDict import DataModelDict as DM
    box = am.Box(vects=np.array(init['v'], dtype=float) / Q, origin=np.array(init['o'], dtype=float) / Q)
    at = sorted(init['atoms'], key=lambda a: a['p'])
    s = am.System(atoms=am.Atoms(atype=[a['t'] for a in at], pos=np.array([a['p'] for a in at], dtype=float) / Q, q=np.array([a['q'] for a in at])),
                  box=box, pbc=[True, True, True], symbols=['Al', 'Cu', 'Ni'])
    names = '>'.join(step_key(x) for x in h)
    for k, st in enumerate(h):
        key = step_key(st)
        own = OWNER[key]
        a = st['args']
        where = 'step %d of %s' % (k, names)
        try:
            if st['act'] == 'supersize':
                m = [1, 1, 1]
                m[a['ax'] - 1] = 2
                s = s.supersize(*m)
            elif st['act'] == 'vacancy':
                s = defect.vacancy(s, pos=np.array(a['p'], dtype=float) / Q)
            elif st['act'] == 'interstitial':
                s = defect.interstitial(s, pos=np.array(a['p'], dtype=float) / Q, atype=a['t'], q=a['q'])
            elif st['act'] == 'substitutional':
                s = defect.substitutional(s, pos=np.array(a['p'], dtype=float) / Q, atype=a['t'])
            elif st['act'] == 'translate_wrap':
                s.atoms.pos += np.array(a['d'], dtype=float) / Q
                s.wrap()
            elif st['act'] == 'roundtrip':
                fmt = a['fmt']
                wq = True
                if fmt == 'atom_data':
                    text = s.dump('atom_data', return_info=False, safecopy=True)
                    s2 = am.load('atom_data', text)
                    wq = False
                elif fmt == 'atom_dump':
                    text, pinfo = s.dump('atom_dump', prop_name=['atom_id', 'atype', 'pos', 'q'], return_prop_info=True)
                    s2 = am.load('atom_dump', io.BytesIO(text.encode()), prop_info=pinfo)
                elif fmt == 'poscar':
                    text = s.dump('poscar', symbols=['Al', 'Cu', 'Ni'][:s.natypes])
                    s2 = am.load('poscar', text)
                    wq = False
                else:
                    model = s.model(box_unit='angstrom', prop_unit={'atype': None, 'pos': 'scaled', 'q': None})
                    txt = model.json() if fmt.endswith('json') else model.xml()
                    s2 = am.System(model=DM(txt))
                if not np.allclose(s2.box.vects, s.box.vects, atol=1e-9) or (fmt != 'poscar' and not np.allclose(s2.box.origin, s.box.origin, atol=1e-9)):
                    return own, '%s: cell changed in a history' % key, where
                got = proj(s2, wq)
                if got != want(st, wq):
                    return own, '%s: atoms changed in a history' % key, where + ' got %s expected %s' % (str(got)[:200], str(want(st, wq))[:200])
                continue
            elif st['act'] == 'neighbors':
                nl = am.NeighborList(system=s, cutoff=np.sqrt(a['cut2']) / Q)
                Pi = _canon(np.rint(s.atoms.pos * Q), np.rint(s.box.vects * Q), np.rint(s.box.origin * Q))
                got = sorted((tuple(Pi[i]), tuple(sorted(tuple(Pi[j]) for j in nl[i]))) for i in range(s.natoms))
                cn = lambda x: tuple(_canon([x], st['v'], st['o'])[0])
                exp = sorted((cn(e['p']), tuple(sorted(cn(x) for x in e['nb']))) for e in st['obs']['nl'])
                if got != exp:
                    return own, 'neighbors: neighbour sets differ from nearest-of-27 < cutoff in a history', where
                continue
        except Exception as e:
            return own, '%s raised %s in a history' % (key, excname(e)), where + ' ' + repr(e)[:200]
        if not np.allclose(s.box.vects * Q, np.array(st['v'], dtype=float), atol=1e-6) or not np.allclose(s.box.origin * Q, np.array(st['o'], dtype=float), atol=1e-6):
            return own, '%s: cell is not the expected cell in a history' % key, where
        got = proj(s)
        if got != want(st):
            return own, '%s: atoms are not the expected atoms in a history' % key, where + ' got %s expected %s' % (str(got)[:200], str(want(st))[:200])
    return None


INITS = None


def _inits():
    # the initial systems of MC_Atomman.tla (the first logged step carries the state AFTER the action, so the start is duplicated here)
    return {
        json.dumps([[12, 0, 0], [4, 12, 0], [0, -4, 16]]): {'v': [[12, 0, 0], [4, 12, 0], [0, -4, 16]], 'o': [4, -8, 2],
                                                           'atoms': [{'p': [4, -8, 2], 't': 1, 'q': 1}, {'p': [12, -4, 10], 't': 2, 'q': 2}]},
        json.dumps([[12, 0, 0], [0, 12, 0], [0, 0, 12]]): {'v': [[12, 0, 0], [0, 12, 0], [0, 0, 12]], 'o': [0, 0, 0],
                                                           'atoms': [{'p': [0, 0, 0], 't': 1, 'q': 1}, {'p': [6, 6, 0], 't': 1, 'q': 2},
                                                                     {'p': [6, 0, 6], 't': 1, 'q': 3}, {'p': [0, 6, 6], 't': 1, 'q': 4}]}}


def init_of(h):
    """identify the initial system from the first step (cell before a possible first supersize)"""
    st = h[0]
    v = [list(r) for r in st['v']]
    if st['act'] == 'supersize':
        ax = st['args']['ax'] - 1
        v[ax] = [x // 2 for x in v[ax]]
    return _inits()[json.dumps(v)]


def run(ctx, am, pid):
    quick = ctx.tier == 'quick'
    cfg = 'Atomman_exh.cfg'
    if quick:
        cfg = tlc.write_cfg('Atomman_exh2.cfg', open(tlc.MC + '/Atomman_exh.cfg').read().replace('UDepthMax = 3', 'UDepthMax = 2'))
    r = tlc.must_pass(tlc.run('MC_Atomman', cfg, workers=16, timeout=3000, heap='8g'), 'Atomman_exh')
    ctx.add_tlc(r)
    hists = list(r.cases)
    rs = tlc.must_pass(tlc.run('MC_Atomman', 'Atomman_sim.cfg', workers=1, timeout=3000, simulate=6 if quick else 120, depth=9, seed=ctx.seed % 100000), 'Atomman_sim')
    ctx.add_tlc(rs)
    hists += [h for h in rs.cases if len(h) == 8]
    n = 0
    for h in hists:
        if not any(OWNER[step_key(st)] == pid for st in h):
            continue
        n += 1
        ctx.count()
        ctx.traces += 1
        bad = replay(am, h, init_of(h))
        if bad and bad[0] == pid:
            ctx.violation(bad[1], bad[2], h)
    ctx.extra['cross_module_histories_replayed'] = n
    ctx.nontrivial_count += n
