"""Cross-module histories (spec/Atomman.tla): one abstract System driven through replication, point defects, translation + wrap,
file / data-model round trips, with neighbour-list observations in between.  Each property's check replays the same TLC
histories and reports only the steps it is responsible for (the other steps are reported by their own property's check)."""
import io
import json

import numpy as np

from . import tlc
from .proj import excname

Q = 4
OWNER = {'supersize': 'C04', 'rotate': 'C04', 'extract': 'C06', 'distances': 'C02', 'displacement': 'C02', 'neighbors_file': 'C03', 'roundtrip:table': 'C08', 'vacancy': 'C15', 'interstitial': 'C15', 'substitutional': 'C15', 'translate_wrap': 'C05',
         'neighbors': 'C03', 'roundtrip:atom_data': 'C08', 'roundtrip:atom_dump': 'C08', 'roundtrip:poscar': 'C08',
         'roundtrip:system_model_json': 'C10', 'roundtrip:system_model_xml': 'C10'}


def _canon(Pi, V, o):
    """exact integer wrap into [0,1): a float coordinate of 1-1e-16 sits on the upper face, which is the same lattice point"""
    V = [[int(x) for x in r] for r in V]
    a, b, c = V
    cr = lambda u, v: [u[1] * v[2] - u[2] * v[1], u[2] * v[0] - u[0] * v[2], u[0] * v[1] - u[1] * v[0]]
    adjT = [cr(b, c), cr(c, a), cr(a, b)]            # rows: b x c, c x a, a x b  -> rel_i = (p-o) . adjT[i] / det
    det = sum(a[i] * adjT[0][i] for i in range(3))
    out = []
    for p in Pi:
        d = [int(p[i]) - int(o[i]) for i in range(3)]
        fl = [(sum(d[j] * adjT[i][j] for j in range(3)) * (1 if det > 0 else -1)) // abs(det) for i in range(3)]
        out.append([int(p[k]) - sum(fl[i] * V[i][k] for i in range(3)) for k in range(3)])
    return out


def proj(s, with_q=True, R=None):
    """abstract atoms of a real system whose frame is the abstract one rotated by R (real row vector = abstract row vector @ R)"""
    R = np.identity(3) if R is None else R
    P = s.atoms.pos @ R.T * Q
    Pi = np.rint(P)
    if np.abs(P - Pi).max() > 1e-6:
        return 'offgrid'
    Pi = _canon(Pi, np.rint(s.box.vects @ R.T * Q), np.rint(s.box.origin @ R.T * Q))
    q = s.atoms.q if with_q and 'q' in s.atoms.prop() else np.zeros(s.natoms)
    return sorted((int(a), int(b), int(c), int(t), int(qq)) for (a, b, c), t, qq in zip(Pi, s.atoms.atype, q))


def want(st, with_q=True):
    C = _canon([a['p'] for a in st['atoms']], st['v'], st['o'])
    return sorted((p[0], p[1], p[2], a['t'], a['q'] if with_q else 0) for p, a in zip(C, st['atoms']))


def step_key(st):
    return st['act'] + (':' + st['args']['fmt'] if st['act'] == 'roundtrip' else '')


def owners(st):
    key = step_key(st)
    o = {OWNER[key]}
    if st['act'] == 'translate_wrap':
        o.add('C02')
    return o


def replay(am, h, init):
    """returns the list of (owner property, signature, detail) of failing steps; observation failures do not stop the replay,
    the first failure of a state-changing step does"""
    import os
    import tempfile
    from atomman import defect
    from DataModelDict import DataModelDict as DM
    box = am.Box(vects=np.array(init['v'], dtype=float) / Q, origin=np.array(init['o'], dtype=float) / Q)
    at = sorted(init['atoms'], key=lambda a: a['p'])
    s = am.System(atoms=am.Atoms(atype=[a['t'] for a in at], pos=np.array([a['p'] for a in at], dtype=float) / Q, q=np.array([a['q'] for a in at])),
                  box=box, pbc=[True, True, True], symbols=['Al', 'Cu', 'Ni'])
    R = np.identity(3)                 # real row vector = abstract row vector @ R
    names = '>'.join(step_key(x) for x in h)
    fails = []
    for k, st in enumerate(h):
        key = step_key(st)
        own = OWNER[key]
        a = st['args']
        where = 'step %d of %s' % (k, names)
        real = lambda p: (np.array(p, dtype=float) / Q) @ R
        try:
            if st['act'] == 'supersize':
                m = [1, 1, 1]
                m[a['ax'] - 1] = 2
                s = s.supersize(*m)
            elif st['act'] == 'rotate':
                s0 = s
                s, T = s.rotate(np.array(a['uvw']), return_transform=True)
                if not np.allclose(T @ T.T, np.identity(3), atol=1e-9) or np.linalg.det(T) < 0:
                    return fails + [(own, 'rotate: returned transform is not a proper rotation in a history', where)]
                R = R @ T.T
                if s0.natoms * abs(round(np.linalg.det(np.array(a['uvw'])))) != s.natoms:
                    return fails + [(own, 'rotate: atom count is not |det| times the original in a history', where)]
            elif st['act'] == 'extract':
                s0 = s
                before = proj(s0, R=R)
                s = s0.atoms_ix[s0.atoms.atype == a['t']]
                if proj(s0, R=R) != before or s.atoms is s0.atoms:
                    fails.append((own, 'extract: the operand changed or is shared in a history', where))
            elif st['act'] == 'vacancy':
                s = defect.vacancy(s, pos=real(a['p']))
            elif st['act'] == 'interstitial':
                s = defect.interstitial(s, pos=real(a['p']), atype=a['t'], q=a['q'])
            elif st['act'] == 'substitutional':
                s = defect.substitutional(s, pos=real(a['p']), atype=a['t'])
            elif st['act'] == 'translate_wrap':
                s0 = am.System(atoms=am.Atoms(atype=s.atoms.atype, pos=s.atoms.pos.copy()), box=s.box, pbc=s.pbc)
                s.atoms.pos += real(a['d'])
                try:
                    # displacement of the translated (unwrapped and, below, wrapped) system from the one before: nearest image of d (C02)
                    for tag, s1 in (('unwrapped', s),):
                        dv = am.displacement(s0, s1) @ R.T * Q
                        d2 = (dv ** 2).sum(axis=1)
                        shift = (dv - np.array(a['d'], dtype=float)) @ np.linalg.inv(np.array(h[k - 1]['v'] if k else init['v'], dtype=float))
                        if np.abs(d2 - st['obs']['disp2']).max() > 1e-6 or np.abs(shift - np.rint(shift)).max() > 1e-6:
                            fails.append(('C02', 'displacement: not the nearest image of the imposed translation in a history', where + ' got %r expected |d|^2=%r' % (d2[:3].tolist(), st['obs']['disp2'])))
                except Exception as e:
                    fails.append(('C02', 'displacement raised %s in a history' % excname(e), where + ' ' + repr(e)[:200]))
                s.wrap()
                # after wrapping the direct separation is another lattice image of d; the nearest of ITS 27 candidates need not be the
                # nearest of d's, so only the image relation and "never longer than the direct separation" are claimed here
                dv = am.displacement(s0, s) @ R.T * Q
                direct = (s.atoms.pos - s0.atoms.pos) @ R.T * Q
                shift = (dv - np.array(a['d'], dtype=float)) @ np.linalg.inv(np.array(h[k - 1]['v'] if k else init['v'], dtype=float))
                if np.abs(shift - np.rint(shift)).max() > 1e-6 or ((dv ** 2).sum(axis=1) > (direct ** 2).sum(axis=1) + 1e-6).any():
                    fails.append(('C02', 'displacement: not a lattice image of the translation after wrapping in a history', where))
            elif st['act'] == 'roundtrip':
                fmt = a['fmt']
                wq = True
                if fmt == 'atom_data':
                    text = s.dump('atom_data', return_info=False, safecopy=True)
                    s2 = am.load('atom_data', text)
                    wq = False
                elif fmt == 'atom_dump':
                    text, pinfo = s.dump('atom_dump', prop_name=['atom_id', 'atype', 'pos', 'q'], return_prop_info=True)
                    s2 = am.load('atom_dump', io.BytesIO(text.encode()), prop_info=pinfo)
                elif fmt == 'poscar':
                    text = s.dump('poscar', symbols=['Al', 'Cu', 'Ni'][:s.natypes])
                    s2 = am.load('poscar', text)
                    wq = False
                elif fmt == 'table':
                    text, pinfo = s.dump('table', prop_name=['atype', 'pos', 'q'], return_prop_info=True, float_format='%.13e')
                    s2 = am.load('table', text, box=s.box, symbols=s.symbols, prop_info=pinfo)
                else:
                    model = s.model(box_unit='angstrom', prop_unit={'atype': None, 'pos': 'scaled', 'q': None})
                    txt = model.json() if fmt.endswith('json') else model.xml()
                    s2 = am.System(model=DM(txt))
                if not np.allclose(s2.box.vects, s.box.vects, atol=1e-9) or (fmt != 'poscar' and not np.allclose(s2.box.origin, s.box.origin, atol=1e-9)):
                    fails.append((own, '%s: cell changed in a history' % key, where))
                    continue
                got = proj(s2, wq, R)
                if got != want(st, wq):
                    fails.append((own, '%s: atoms changed in a history' % key, where + ' got %s expected %s' % (str(got)[:200], str(want(st, wq))[:200])))
                continue
            elif st['act'] == 'neighbors':
                nl = am.NeighborList(system=s, cutoff=np.sqrt(a['cut2']) / Q)
                Pi = _canon(np.rint(s.atoms.pos @ R.T * Q), np.rint(s.box.vects @ R.T * Q), np.rint(s.box.origin @ R.T * Q))
                got = sorted((tuple(Pi[i]), tuple(sorted(tuple(Pi[j]) for j in nl[i]))) for i in range(s.natoms))
                cn = lambda x: tuple(_canon([x], st['v'], st['o'])[0])
                exp = sorted((cn(e['p']), tuple(sorted(cn(x) for x in e['nb']))) for e in st['obs']['nl'])
                if got != exp:
                    fails.append((own, 'neighbors: neighbour sets differ from nearest-of-27 < cutoff in a history', where))
                fd, fn = tempfile.mkstemp(suffix='.nl', dir=tlc.WORK)
                os.close(fd)
                try:
                    nl.dump(fn)
                    nl2 = am.NeighborList(model=fn)
                    if [list(map(int, nl2[i])) for i in range(s.natoms)] != [list(map(int, nl[i])) for i in range(s.natoms)] or list(nl2.coord) != list(nl.coord):
                        fails.append((own, 'neighbors: list changed through a file in a history', where))
                finally:
                    os.unlink(fn)
                continue
            elif st['act'] == 'distances':
                Pi = _canon(np.rint(s.atoms.pos @ R.T * Q), np.rint(s.box.vects @ R.T * Q), np.rint(s.box.origin @ R.T * Q))
                cn = lambda x: tuple(_canon([x], st['v'], st['o'])[0])
                exp = {(cn(e['p']), cn(e['q'])): e['d2'] for e in st['obs']['d']}
                n = s.natoms
                ii, jj = np.meshgrid(np.arange(n), np.arange(n), indexing='ij')
                dv = s.dvect(ii.ravel(), jj.ravel()) * Q
                dm = s.dmag(ii.ravel(), jj.ravel()) * Q
                for i, j, v, m in zip(ii.ravel(), jj.ravel(), dv, dm):
                    e = exp.get((tuple(Pi[i]), tuple(Pi[j])))
                    if e is None or abs(v.dot(v) - e) > 1e-6 or abs(m * m - e) > 1e-6:
                        fails.append((own, 'distances: periodic distance differs from the nearest of 27 in a history', where + ' pair %d,%d got %r expected %r' % (i, j, float(v.dot(v)), e)))
                        break
                continue
        except Exception as e:
            return fails + [(own, '%s raised %s in a history' % (key, excname(e)), where + ' ' + repr(e)[:200])]
        if not np.allclose(s.box.vects @ R.T * Q, np.array(st['v'], dtype=float), atol=1e-6) or not np.allclose(s.box.origin @ R.T * Q, np.array(st['o'], dtype=float), atol=1e-6):
            return fails + [(own, '%s: cell is not the expected cell in a history' % key, where)]
        got = proj(s, R=R)
        if got != want(st):
            return fails + [(own, '%s: atoms are not the expected atoms in a history' % key, where + ' got %s expected %s' % (str(got)[:200], str(want(st))[:200]))]
    return fails


INITS = None


def _inits():
    # the initial systems of MC_Atomman.tla (the first logged step carries the state AFTER the action, so the start is duplicated here)
    return {
        json.dumps([[12, 0, 0], [4, 12, 0], [0, -4, 16]]): {'v': [[12, 0, 0], [4, 12, 0], [0, -4, 16]], 'o': [4, -8, 2],
                                                           'atoms': [{'p': [4, -8, 2], 't': 1, 'q': 1}, {'p': [12, -4, 10], 't': 2, 'q': 2}]},
        json.dumps([[12, 0, 0], [0, 12, 0], [0, 0, 12]]): {'v': [[12, 0, 0], [0, 12, 0], [0, 0, 12]], 'o': [0, 0, 0],
                                                           'atoms': [{'p': [0, 0, 0], 't': 1, 'q': 1}, {'p': [6, 6, 0], 't': 1, 'q': 2},
                                                                     {'p': [6, 0, 6], 't': 1, 'q': 3}, {'p': [0, 6, 6], 't': 1, 'q': 4}]}}


def init_of(h):
    """identify the initial system from the first step (cell before a possible first supersize)"""
    st = h[0]
    v = [list(r) for r in st['v']]
    if st['act'] == 'supersize':
        ax = st['args']['ax'] - 1
        v[ax] = [x // 2 for x in v[ax]]
    if st['act'] == 'rotate':
        v = np.rint(np.linalg.inv(np.array(st['args']['uvw'], dtype=float)) @ np.array(v, dtype=float)).astype(int).tolist()
    return _inits()[json.dumps(v)]


_AM = None


def _work(h):
    try:
        return replay(_AM, h, init_of(h))
    except Exception as e:          # harness failure, reported by the parent as a machinery failure
        return [('MACHINERY', repr(e), '')]


def run(ctx, am, pid):
    global _AM
    import multiprocessing as mp
    quick = ctx.tier == 'quick'
    cfg = 'Atomman_exh.cfg'
    if quick:
        cfg = tlc.write_cfg('Atomman_exh2.cfg', open(tlc.MC + '/Atomman_exh.cfg').read().replace('UDepthMax = 3', 'UDepthMax = 2'))
    r = tlc.must_pass(tlc.run('MC_Atomman', cfg, workers=16, timeout=3000, heap='8g'), 'Atomman_exh')
    ctx.add_tlc(r)
    # anti-vacuity: a Rotate that keeps both faces must be rejected by the abstract "same crystal" properties
    tlc.must_fail(tlc.run('MC_Atomman', 'Atomman_neg.cfg', workers=4, timeout=600), 'Atomman_neg (rotate keeping both faces)', 'NoCoincidence')
    hists = list(r.cases)
    rs = tlc.must_pass(tlc.run('MC_Atomman', 'Atomman_sim.cfg', workers=1, timeout=3000, simulate=6 if quick else 200, depth=9, seed=ctx.seed % 100000), 'Atomman_sim')
    ctx.add_tlc(rs)
    hists += [h for h in rs.cases if len(h) == 8]
    hists = [h for h in hists if any(pid in owners(st) for st in h)]
    _AM = am
    if len(hists) > 3000:
        with mp.get_context('fork').Pool(16) as pool:
            results = pool.map(_work, hists, chunksize=64)
    else:
        results = [_work(h) for h in hists]
    n = 0
    for h, fails in zip(hists, results):
        n += 1
        ctx.count()
        ctx.traces += 1
        for bad in fails:
            if bad[0] == 'MACHINERY':
                raise tlc.MachineryError('umbrella replay failed: ' + bad[1])
            if bad[0] == pid:
                ctx.violation(bad[1], bad[2], h)
    ctx.extra['cross_module_histories_replayed'] = n
    ctx.nontrivial_count += n
