"""Rebuild atomman's Cython extensions from /repo's *current working tree* (offline).

Decision is by content hash of *.pyx/*.pxd (stamp kept in /repo/build, which is git-ignored
build output), not by mtime alone; serialised with flock so parallel checks do not race."""
import fcntl
import glob
import hashlib
import json
import os
import subprocess
import sys

REPO = os.environ.get('ATOMMAN_REPO', '/repo')
PY = '/venv/bin/python'


def _hashes():
    h = {}
    for p in sorted(glob.glob(os.path.join(REPO, 'atomman', '*', '*.pyx')) +
                    glob.glob(os.path.join(REPO, 'atomman', '*', '*.pxd'))):
        with open(p, 'rb') as f:
            h[os.path.relpath(p, REPO)] = hashlib.sha256(f.read()).hexdigest()
    return h


def ensure_built(verbose=False):
    bdir = os.path.join(REPO, 'build')
    os.makedirs(bdir, exist_ok=True)
    stamp = os.path.join(bdir, '.verif_stamp.json')
    lock = open(os.path.join(bdir, '.verif_lock'), 'w')
    fcntl.flock(lock, fcntl.LOCK_EX)
    try:
        cur = _hashes()
        old = None
        if os.path.exists(stamp):
            try:
                old = json.load(open(stamp))
            except Exception:
                old = None
        sos = all(glob.glob(os.path.join(REPO, os.path.splitext(k)[0] + '.cpython-*.so'))
                  for k in cur if k.endswith('.pyx'))
        cmd = [PY, 'setup.py', 'build_ext', '--inplace', '-j', '5']
        if old != cur or not sos:
            cmd.append('--force')
        elif os.environ.get('VERIF_SKIP_BUILD') == '1':
            return True
        p = subprocess.run(cmd, cwd=REPO, stdout=subprocess.PIPE, stderr=subprocess.STDOUT, text=True)
        if verbose or p.returncode != 0:
            sys.stderr.write(p.stdout[-3000:])
        if p.returncode != 0:
            return False
        json.dump(cur, open(stamp, 'w'))
        return True
    finally:
        fcntl.flock(lock, fcntl.LOCK_UN)
        lock.close()


if __name__ == '__main__':
    sys.exit(0 if ensure_built(verbose=True) else 2)
