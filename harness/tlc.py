"""Run TLC / SANY for the atomman specifications and parse what they print.

Conventions used by every spec in /verif/spec:
  * a state CONSTRAINT prints  "@@CASE <json>"   -- one S->C case (expected values computed by TLC)
  * a trace spec prints        "@@BAD <json>"    -- a trace record rejected, with the failing clause
                               "@@DONE <n>"      -- every record of the trace file was consumed
  * anything else TLC reports as an error (invariant violated, overflow, deadlock) is returned in
    Result.error and is either a model-level failure or a machinery failure (exit 2) -- never silently ok.
"""
import json
import os
import re
import shutil
import subprocess
import tempfile
import time
from concurrent.futures import ThreadPoolExecutor

VERIF = os.path.dirname(os.path.dirname(os.path.abspath(__file__)))
SPEC = os.path.join(VERIF, 'spec')
MC = os.path.join(VERIF, 'mc')
WORK = os.path.join(VERIF, '.work')
JAR = '/opt/veriftools/tla/tla2tools.jar:/opt/veriftools/tla/CommunityModules-deps.jar'


class MachineryError(Exception):
    pass


class Result:
    def __init__(self):
        self.stdout = ''
        self.generated = 0
        self.distinct = 0
        self.depth = 0
        self.cases = []
        self.payloads = []
        self.bads = []
        self.done = None
        self.error = None          # text of the first TLC error, if any
        self.invariant = None      # name of violated invariant, if any
        self.wall = 0.0
        self.coverage = {}
        self.rc = 0

    @property
    def ok(self):
        return self.error is None and self.rc == 0


_case_re = re.compile(r'^"@@(CASE|BAD|DONE) (.*)"$')


def _parse(res, dedupe=True, raw_cases=False):
    seen = set()
    err_lines = []
    in_err = False
    for line in res.stdout.splitlines():
        line = line.rstrip('\r')
        m = _case_re.match(line)
        if m:
            try:
                inner = json.loads(line)        # the TLA+ string literal
            except Exception as e:              # pragma: no cover
                raise MachineryError('unparsable PrintT line: %r (%s)' % (line[:200], e))
            kind, payload = inner[2:].split(' ', 1)
            if kind == 'DONE':
                res.done = int(payload)
                continue
            if dedupe and kind == 'CASE':
                if payload in seen:
                    continue
                seen.add(payload)
            if kind == 'CASE' and raw_cases:           # huge enumerations: keep the JSON text, the consumer parses one case at a time
                res.cases.append(payload)
                res.payloads.append(payload)
                continue
            obj = json.loads(payload)
            (res.cases if kind == 'CASE' else res.bads).append(obj)
            if kind == 'CASE':
                res.payloads.append(payload)
            continue
        m = re.match(r'^(\d+) states generated, (\d+) distinct states found', line)
        if m:
            res.generated = int(m.group(1))
            res.distinct = int(m.group(2))
        m = re.match(r'^The depth of the complete state graph search is (\d+)', line)
        if m:
            res.depth = int(m.group(1))
        m = re.match(r'^Error: Invariant (\S+) is violated', line)
        if m:
            res.invariant = m.group(1)
        if line.startswith('Error:') or 'Exception' in line and 'at ' not in line[:4]:
            in_err = True
        if in_err and len(err_lines) < 40:
            err_lines.append(line)
        m = re.match(r'^<(\w+) line \d+, col \d+ to line \d+, col \d+ of module (\w+)>: (\d+):(\d+)', line)
        if m:
            res.coverage[m.group(2) + '!' + m.group(1)] = (int(m.group(3)), int(m.group(4)))
    if err_lines:
        res.error = '\n'.join(err_lines)
    return res


def run(module, cfg, workers=1, env=None, timeout=3600, simulate=None, depth=None, seed=None,
        coverage=False, heap='4g', deadlock=True, dedupe=True, keep_stdout=True, dfs=False, raw_cases=False):
    """module: file name under spec/ (without .tla); cfg: path (absolute or under mc/)."""
    os.makedirs(WORK, exist_ok=True)
    meta = tempfile.mkdtemp(prefix='tlc_', dir=WORK)
    cfgp = cfg if os.path.isabs(cfg) else os.path.join(MC, cfg)
    if workers == 1:
        cmd = ['java', '-XX:+UseSerialGC', '-XX:TieredStopAtLevel=1', '-Xmx' + ('2g' if heap == '4g' else heap), '-Xss16m']
    else:
        cmd = ['java', '-XX:+UseParallelGC', '-XX:ParallelGCThreads=%d' % min(8, workers), '-Xmx' + heap, '-Xss16m']
    if dfs:
        cmd.append('-Dtlc2.tool.queue.IStateQueue=StateDeque')
    cmd += ['-cp', JAR, 'tlc2.TLC', '-workers', str(workers), '-metadir', meta, '-noGenerateSpecTE',
            '-config', cfgp]
    if not deadlock:
        cmd.append('-deadlock')
    if coverage:
        cmd += ['-coverage', '1']
    if simulate:
        cmd += ['-simulate', 'num=%d' % simulate]
        if depth:
            cmd += ['-depth', str(depth)]
    if seed is not None:
        cmd += ['-seed', str(seed)]
    cmd.append(module + '.tla')
    e = dict(os.environ)
    e.pop('JAVA_TOOL_OPTIONS', None)
    if env:
        e.update({k: str(v) for k, v in env.items()})
    res = Result()
    t0 = time.time()
    try:
        p = subprocess.run(cmd, cwd=SPEC, env=e, stdout=subprocess.PIPE, stderr=subprocess.STDOUT,
                           timeout=timeout, text=True)
        res.stdout = p.stdout
        res.rc = p.returncode
    except subprocess.TimeoutExpired as ex:
        res.stdout = (ex.stdout or b'').decode() if isinstance(ex.stdout, bytes) else (ex.stdout or '')
        res.rc = 124
        res.error = 'TLC timeout after %ss' % timeout
    finally:
        shutil.rmtree(meta, ignore_errors=True)
    res.wall = time.time() - t0
    _parse(res, dedupe=dedupe, raw_cases=raw_cases)
    if workers > 1 and simulate is None and len(res.payloads) == len(res.cases):
        # several workers print in a schedule-dependent order: sort, so that every run of a check sees the same sequence of cases
        order = sorted(range(len(res.cases)), key=lambda i: res.payloads[i])
        res.cases = [res.cases[i] for i in order]
    res.payloads = []
    if res.rc != 0 and res.error is None:
        res.error = 'TLC exit code %d\n%s' % (res.rc, res.stdout[-1500:])
    if not keep_stdout:
        res.stdout = res.stdout[-4000:]
    return res


def must_pass(res, what):
    """A model-level run that has to succeed (all invariants hold); anything else is machinery failure."""
    if not res.ok:
        raise MachineryError('%s failed:\n%s' % (what, (res.error or '')[:3000]))
    return res


def must_fail(res, what, invariant=None):
    """Negative (anti-vacuity) configuration: TLC must report a violation."""
    if res.invariant is None and not res.bads:
        raise MachineryError('%s: negative configuration was NOT rejected (vacuous check?)\n%s'
                             % (what, res.stdout[-1500:]))
    if invariant and res.invariant != invariant:
        raise MachineryError('%s: expected violation of %s, got %s' % (what, invariant, res.invariant))
    return res


def write_cfg(name, text):
    """Write a generated cfg under .work/cfg and return its absolute path."""
    d = os.path.join(WORK, 'cfg')
    os.makedirs(d, exist_ok=True)
    p = os.path.join(d, name)
    with open(p, 'w') as f:
        f.write(text)
    return p


def _np(o):
    import numpy as np
    if isinstance(o, np.bool_):
        return bool(o)
    if isinstance(o, np.integer):
        return int(o)
    if isinstance(o, np.floating):
        return float(o)
    if isinstance(o, np.ndarray):
        return o.tolist()
    raise TypeError(type(o))


def validate_traces(module, cfg, records, workdir, shards=16, timeout=3600, env=None, tag='trace'):
    """C->S: write records (list of dicts) as ndjson shards, run one TLC per shard (-workers 1),
    return (n_accepted, bads, states, transitions).  bads carry the global record index 'idx'
    and the record itself."""
    os.makedirs(workdir, exist_ok=True)
    n = len(records)
    if n == 0:
        return 0, [], 0, 0
    shards = max(1, min(shards, (n + 49) // 50))
    per = (n + shards - 1) // shards
    jobs = []
    for s in range(shards):
        chunk = records[s * per:(s + 1) * per]
        if not chunk:
            continue
        path = os.path.join(workdir, '%s_%02d.ndjson' % (tag, s))
        with open(path, 'w') as f:
            for r in chunk:
                f.write(json.dumps(r, separators=(',', ':'), default=_np) + '\n')
        jobs.append((s * per, path, len(chunk)))

    def one(job):
        base, path, cnt = job
        e = {'TRACE_FILE': path}
        if env:
            e.update(env)
        r = run(module, cfg, workers=1, env=e, timeout=timeout, keep_stdout=False)
        return base, path, cnt, r

    bads = []
    states = trans = 0
    with ThreadPoolExecutor(max_workers=16) as ex:
        for base, path, cnt, r in ex.map(one, jobs):
            if r.error is not None:
                raise MachineryError('trace validation %s on %s failed:\n%s' % (module, path, r.error[:3000]))
            if r.done != cnt:
                raise MachineryError('trace validation %s on %s consumed %s of %d records\n%s'
                                     % (module, path, r.done, cnt, r.stdout[-1500:]))
            states += r.distinct
            trans += r.generated
            for b in r.bads:
                b = dict(b)
                b['idx'] = base + b['l'] - 1
                b['file'] = path
                b['record'] = records[b['idx']]
                bads.append(b)
    return n - len(set(b['idx'] for b in bads)), bads, states, trans


def must_reject(module, cfg, records, workdir, what):
    """Binding self-test: every record of this (deliberately corrupted) list must be rejected by the trace specification."""
    if not records:
        return 0
    ok, bads, st, tr = validate_traces(module, cfg, records, workdir, shards=1, tag='neg')
    rejected = set(b['idx'] for b in bads)
    missing = [i for i in range(len(records)) if i not in rejected]
    if missing:
        raise MachineryError('%s: corrupted record %d (%s) was ACCEPTED by %s -- the binding is vacuous'
                             % (what, missing[0], records[missing[0]].get('ev'), module))
    return len(records)


def sany(path):
    p = subprocess.run(['java', '-cp', JAR, 'tla2sany.SANY', os.path.basename(path)],
                       cwd=os.path.dirname(path), stdout=subprocess.PIPE, stderr=subprocess.STDOUT, text=True)
    ok = p.returncode == 0 and 'Semantic errors' not in p.stdout and 'Parse Error' not in p.stdout \
        and '*** Errors' not in p.stdout and 'Fatal errors' not in p.stdout
    return ok, p.stdout
