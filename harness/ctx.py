"""Per-run context: counters, violations, known findings, evidence writing, exit code."""
import json
import os
import random
import sys
import time
import traceback

from . import tlc

VERIF = tlc.VERIF


class Ctx:
    def __init__(self, pid, tier, seed):
        self.pid = pid
        self.tier = tier
        self.seed = seed
        self.rng = random.Random(seed)
        self.work = os.path.join(VERIF, '.work', pid.lower())
        os.makedirs(self.work, exist_ok=True)
        self.t0 = time.time()
        self.states = 0
        self.transitions = 0
        self.traces = 0            # behaviours replayed into the code + trace records accepted by TLC
        self.evaluations = 0
        self.nontrivial = set()
        self.nontrivial_count = 0
        self.samples = []
        self.violations = []
        self.known_hits = []
        self.notes = []
        self.extra = {}
        self.exhaustive = False
        self.rule = ''
        self.assumptions = []
        self.trusted = []
        self.drift = []
        kf = os.path.join(VERIF, 'known_findings.json')
        self.known = json.load(open(kf)).get('findings', []) if os.path.exists(kf) else []

    # ---- bookkeeping -------------------------------------------------------------------------
    def add_tlc(self, res):
        self.states += res.distinct
        self.transitions += res.generated

    def count(self, n=1):
        self.evaluations += n

    def nontriv(self, key):
        """register one DISTINCT non-trivial case (key must identify the case)"""
        if len(self.nontrivial) < 2000000:
            self.nontrivial.add(key if isinstance(key, (str, int, tuple)) else json.dumps(key, sort_keys=True))
        else:
            self.nontrivial_count += 0   # saturated: stay conservative

    def sample(self, obj, limit=6):
        if len(self.samples) < limit:
            self.samples.append(obj)

    def note(self, s):
        self.notes.append(s)
        print('note:', s)

    def model_drift(self, s):
        self.drift.append(s)
        if len(self.drift) <= 10:
            print('MODEL-DRIFT: property=%s %s' % (self.pid, s))

    def violation(self, sig, detail, replay=None):
        """sig: stable identification of WHAT fails (input / call site / history)."""
        for k in self.known:
            if k.get('property') == self.pid and k.get('sig') == sig:
                if sig not in [h['sig'] for h in self.known_hits]:
                    self.known_hits.append({'sig': sig, 'what': k.get('what', '')})
                return
        if any(v['sig'] == sig for v in self.violations):
            return
        n = len(self.violations)
        path = os.path.join(self.work, 'violation_%d.json' % n)
        with open(path, 'w') as f:
            json.dump({'property': self.pid, 'sig': sig, 'detail': detail, 'replay': replay,
                       'seed': self.seed, 'tier': self.tier}, f, indent=1, default=str)
        self.violations.append({'sig': sig, 'detail': detail, 'path': path})

    # ---- finishing ---------------------------------------------------------------------------
    def finish(self):
        for h in self.known_hits:
            print('KNOWN-FINDING: property=%s %s' % (self.pid, h['sig']))
        for v in self.violations[:50]:
            print('  violated: %s :: %s' % (v['sig'], str(v['detail'])[:400]))
            print('VIOLATION property=%s replay=%s' % (self.pid, v['path']))
        cov = {
            'states': self.states, 'transitions': self.transitions,
            'traces_validated_against_impl': self.traces,
            'samples': self.samples or ['(no sample recorded)'],
            'evaluations': self.evaluations,
            'distinct_nontrivial': len(self.nontrivial) + self.nontrivial_count,
            'rule': self.rule, 'exhaustive': self.exhaustive,
            'trusted_base': self.trusted,
            'known_findings_hit': [h['sig'] for h in self.known_hits],
            'model_drift': self.drift[:20],
            'notes': self.notes[:50],
        }
        cov.update(self.extra)
        ev = {'property_id': self.pid, 'tier': self.tier, 'seed': self.seed, 'level': 'model_checking',
              'coverage': cov, 'assumptions': self.assumptions, 'wall_s': round(time.time() - self.t0, 2),
              'violations': len(self.violations)}
        os.makedirs(os.path.join(VERIF, 'evidence'), exist_ok=True)
        with open(os.path.join(VERIF, 'evidence', self.pid + '.json'), 'w') as f:
            json.dump(ev, f, indent=1, default=str)
        print('%s %s: states=%d transitions=%d traces=%d evaluations=%d nontrivial=%d violations=%d known=%d wall=%.1fs'
              % (self.pid, self.tier, self.states, self.transitions, self.traces, self.evaluations,
                 cov['distinct_nontrivial'], len(self.violations), len(self.known_hits), ev['wall_s']))
        return 1 if self.violations else 0
