"""Unit cells used by several drivers: (System with int property q, basis [[x1,x2,x3,type,q] over dd], dd, centring setting)."""
import numpy as np


def ucells(am, origin=False):
    def mk(box, rel, types, dd, setting=None, q=None):
        if q is None:
            q = list(range(1, len(types) + 1))
            if setting:            # centring-equivalent atoms must be identical
                q = [7] * len(types)
        atoms = am.Atoms(atype=types, pos=np.array(rel, dtype=float) / dd, q=np.array(q, dtype=int),
                         w=np.outer(np.array(q, dtype=float), [1.0, -0.5, 0.25]))   # vector property tied to q
        if origin:
            box = am.Box(vects=box.vects, origin=np.array([0.5, -0.5, 0.5]) @ box.vects)   # lattice-commensurate (dd is even)
        s = am.System(atoms=atoms, box=box, scale=True, symbols=['Al', 'Cu'][:max(types)])
        return s, [[int(x) for x in r] + [int(t), int(qq)] for r, t, qq in zip(rel, types, q)], dd, setting
    return {
        'sc': mk(am.Box.cubic(3.0), [[0, 0, 0]], [1], 2),
        'fcc': mk(am.Box.cubic(4.0), [[0, 0, 0], [2, 2, 0], [2, 0, 2], [0, 2, 2]], [1, 1, 1, 1], 4, 'f'),
        'bcc': mk(am.Box.cubic(3.0), [[0, 0, 0], [1, 1, 1]], [1, 1], 2, 'i'),
        'B2': mk(am.Box.cubic(3.0), [[0, 0, 0], [1, 1, 1]], [1, 2], 2),
        'hcp': mk(am.Box.hexagonal(3.0, 5.0), [[4, 8, 3], [8, 4, 9]], [1, 1], 12),
        'tet2': mk(am.Box.tetragonal(3.0, 5.0), [[0, 0, 0], [2, 2, 1]], [1, 2], 4),
        'ortC': mk(am.Box.orthorhombic(3.0, 4.0, 5.5), [[0, 0, 0], [2, 2, 0]], [1, 1], 4, 'c'),
        'ortA': mk(am.Box.orthorhombic(3.0, 4.0, 5.5), [[0, 0, 0], [0, 2, 2]], [1, 1], 4, 'a'),
        'ortB': mk(am.Box.orthorhombic(3.0, 4.0, 5.5), [[0, 0, 0], [2, 0, 2]], [1, 1], 4, 'b'),
        'mono': mk(am.Box.monoclinic(3.0, 4.0, 5.0, 105.0), [[0, 0, 0], [4, 2, 5]], [1, 2], 8),
        'tri1': mk(am.Box.triclinic(3.0, 4.0, 5.0, 80.0, 95.0, 105.0), [[1, 2, 3], [5, 6, 1], [0, 4, 4]], [2, 1, 1], 8),
        'rhoT1': mk(am.Box.hexagonal(3.0, 7.5), [[0, 0, 0], [4, 2, 2], [2, 4, 4]], [1, 1, 1], 6, 't1'),
        # several atoms per lattice point (a motif of two species): centring-equivalent atoms share type and q, the motif atoms differ
        'dia': mk(am.Box.cubic(4.0), [[0, 0, 0], [4, 4, 0], [4, 0, 4], [0, 4, 4], [2, 2, 2], [6, 6, 2], [6, 2, 6], [2, 6, 6]], [1] * 4 + [2] * 4, 8, 'f', [7] * 4 + [9] * 4),
        'bcc2': mk(am.Box.cubic(3.0), [[0, 0, 0], [4, 4, 4], [2, 1, 3], [6, 5, 7]], [1, 1, 2, 2], 8, 'i', [7, 7, 9, 9]),
        'tetI2': mk(am.Box.tetragonal(3.0, 5.0), [[0, 0, 0], [4, 4, 4], [1, 2, 3], [5, 6, 7]], [1, 1, 2, 2], 8, 'i', [7, 7, 9, 9]),
        'monoC2': mk(am.Box.monoclinic(3.0, 4.0, 5.0, 105.0), [[0, 0, 0], [4, 4, 0], [1, 2, 3], [5, 6, 3]], [1, 1, 2, 2], 8, 'c', [7, 7, 9, 9]),
        'rhoT1b': mk(am.Box.hexagonal(3.0, 7.5), [[0, 0, 0], [8, 4, 4], [4, 8, 8], [1, 2, 3], [9, 6, 7], [5, 10, 11]], [1, 1, 1, 2, 2, 2], 12, 't1', [7, 7, 7, 9, 9, 9]),
        'hex2': mk(am.Box.hexagonal(3.0, 5.0), [[0, 0, 0], [4, 8, 6]], [1, 2], 12),
        'rhoT2': mk(am.Box.hexagonal(3.0, 7.5), [[0, 0, 0], [2, 4, 2], [4, 2, 4]], [1, 1, 1], 6, 't2'),
    }
