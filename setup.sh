#!/bin/sh
# Offline setup: rebuild atomman's Cython extensions from /repo's working tree and parse every TLA+ module.
set -e
cd "$(dirname "$0")"
mkdir -p .work evidence
/venv/bin/python harness/build.py >/dev/null 2>.work/build.log || { tail -30 .work/build.log; echo "build failed"; exit 2; }
fail=0
for f in spec/*.tla; do
  out=$(cd spec && java -cp /opt/veriftools/tla/tla2tools.jar:/opt/veriftools/tla/CommunityModules-deps.jar tla2sany.SANY "$(basename "$f")" 2>&1) || { echo "$out" | tail -20; fail=1; }
  case "$out" in *"*** Errors"*|*"Parse Error"*|*"Fatal errors"*) echo "SANY: $f"; echo "$out" | tail -20; fail=1;; esac
done
[ $fail = 0 ] || exit 2
echo "setup ok"
