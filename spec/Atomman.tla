---- MODULE Atomman ----
(***************************************************************************)
(* Umbrella specification: ONE abstract System (cell, origin, atoms on an  *)
(* integer grid with type and a property) driven through operations that   *)
(* belong to different properties -- replication (C04), point defects      *)
(* (C15), rigid translation + wrapping (C05), file and data-model round    *)
(* trips (C08, C10), re-expression along integer lattice vectors (C04),    *)
(* extraction of a sub-system (C06) -- with observations of periodic       *)
(* distances and displacements (C02) and neighbour lists (C03, also        *)
(* through a file) in between.  Histories cross module boundaries:         *)
(* supersize -> rotate -> vacancy -> translate+wrap -> dump/load -> list.  *)
(* The abstract frame never rotates: the implementation's rotations are    *)
(* accumulated by the replay harness and undone before comparing.          *)
(* The state is a SET of atoms (order is modelled in PointDefect/AtomsStore*)
(* where it matters).                                                      *)
(***************************************************************************)
EXTENDS Lattice, Json

CONSTANTS UDepthMax, UCells, UShifts, UInter, UCuts, UUvws
VARIABLES usys, ulog, ucount
umvars == <<usys, ulog, ucount>>

A(p, t, q) == [p |-> p, t |-> t, q |-> q]
PBC == <<TRUE, TRUE, TRUE>>
CellOf(s) == [v |-> s.v, o |-> s.o]
Positions(s) == {a.p : a \in s.atoms}
\* an atom "at" position x modulo the lattice
At(s, x) == {a \in s.atoms : Min27(CellOf(s), PBC, Sub(a.p, x)) = 0}
Log(act, args, obs) == ulog' = Append(ulog, [act |-> act, args |-> args, obs |-> obs, v |-> usys'.v, o |-> usys'.o, atoms |-> usys'.atoms])

UmInit == usys \in UCells /\ ulog = <<>> /\ ucount = 0
\* replicate along one axis by 2 (positive multiplier): images 0 and 1
Supersize == \E ax \in 1..3 : Cardinality(usys.atoms) <= 8 /\
    LET tv == usys.v[ax] IN
    /\ usys' = [usys EXCEPT !.v[ax] = Scale(2, tv), !.atoms = usys.atoms \cup {A(Add(a.p, tv), a.t, a.q) : a \in usys.atoms}]
    /\ ucount' = 2 * ucount /\ Log("supersize", [ax |-> ax], [n |-> 2 * Cardinality(usys.atoms)])
Vacancy == \E a \in usys.atoms : Cardinality(usys.atoms) > 1 /\
    /\ usys' = [usys EXCEPT !.atoms = usys.atoms \ {a}]
    /\ ucount' = ucount - 1 /\ Log("vacancy", [p |-> a.p], [n |-> Cardinality(usys.atoms) - 1])
Interstitial == \E s \in UInter : LET x == Add(usys.o, s) IN At(usys, x) = {} /\ Cardinality(usys.atoms) < 14 /\
    /\ usys' = [usys EXCEPT !.atoms = usys.atoms \cup {A(x, 3, 5)}]
    /\ ucount' = ucount + 1 /\ Log("interstitial", [p |-> x, t |-> 3, q |-> 5], [n |-> Cardinality(usys.atoms) + 1])
Substitutional == \E a \in usys.atoms : a.t # 2 /\
    /\ usys' = [usys EXCEPT !.atoms = (usys.atoms \ {a}) \cup {A(a.p, 2, a.q)}]
    /\ UNCHANGED ucount /\ Log("substitutional", [p |-> a.p, t |-> 2], [n |-> Cardinality(usys.atoms)])
\* re-expression along integer lattice vectors U (rows, in cell coordinates): the new cell U.v sits at the ABSOLUTE origin and holds
\* every lattice image of every atom that falls inside it (half-open)
RotateWith(Inside(_, _)) == \E U \in UUvws : Cardinality(usys.atoms) * Abs(Det3(U)) <= 8 /\
    LET nv == MatMul(U, usys.v)
        nc == [v |-> nv, o |-> Zero3]
        imgs == { A(Add(a.p, VecMat(n, usys.v)), a.t, a.q) : a \in usys.atoms, n \in Shifts(PBC, 3) } IN
    /\ usys' = [v |-> nv, o |-> Zero3, atoms |-> {x \in imgs : Inside(nc, x.p)}]
    /\ ucount' = Abs(Det3(U)) * ucount /\ Log("rotate", [uvw |-> U], [n |-> Abs(Det3(U)) * Cardinality(usys.atoms)])
Rotate == RotateWith(InsideHalfOpen)
\* a deliberately wrong variant (both faces included) for the negative configuration: KeepsCrystal and NoCoincidence must reject it
RotateBothFaces == RotateWith(InsideIncl)
\* sub-system extraction: the atoms of one type, as a new system in the same cell
Extract == \E t \in {a.t : a \in usys.atoms} : {a \in usys.atoms : a.t # t} # {} /\
    /\ usys' = [usys EXCEPT !.atoms = {a \in usys.atoms : a.t = t}]
    /\ ucount' = 0 /\ Log("extract", [t |-> t], [n |-> Cardinality({a \in usys.atoms : a.t = t})])
\* rigid translation followed by wrap: every atom returns into the cell by whole cell vectors
Wrapped(c, p) == Sub(p, VecMat(<<WrapFlag(c, p, 1), WrapFlag(c, p, 2), WrapFlag(c, p, 3)>>, c.v))
TranslateWrap == \E d \in UShifts :
    /\ usys' = [usys EXCEPT !.atoms = {A(Wrapped(CellOf(usys), Add(a.p, d)), a.t, a.q) : a \in usys.atoms}]
    /\ UNCHANGED ucount /\ Log("translate_wrap", [d |-> d], [n |-> Cardinality(usys.atoms), disp2 |-> Min27(CellOf(usys), PBC, d)])
\* round trips leave the system as it is
RoundTrip == \E fmt \in {"atom_data", "atom_dump", "system_model_json", "system_model_xml", "poscar", "table"} :
    /\ (fmt = "poscar" => usys.o = Zero3) /\ UNCHANGED <<usys, ucount>> /\ Log("roundtrip", [fmt |-> fmt], [n |-> Cardinality(usys.atoms)])
\* observations: neighbour sets by position, and the periodic squared distance of the two lexicographically extreme atoms
NeighSets(s, cut2) == { [p |-> a.p, nb |-> {b.p : b \in {c \in s.atoms : c # a /\ Min27(CellOf(s), PBC, Sub(c.p, a.p)) < cut2}}] : a \in s.atoms }
Observe == \E cut2 \in UCuts :
    /\ UNCHANGED <<usys, ucount>> /\ Log("neighbors", [cut2 |-> cut2], [nl |-> NeighSets(usys, cut2)])
\* periodic squared distance of every pair
Distances == /\ Cardinality(usys.atoms) > 1 /\ UNCHANGED <<usys, ucount>>
             /\ Log("distances", [k |-> 0], [d |-> { [p |-> a.p, q |-> b.p, d2 |-> Min27(CellOf(usys), PBC, Sub(b.p, a.p))] : a \in usys.atoms, b \in usys.atoms }])
UmNext == Len(ulog) < UDepthMax /\ (Supersize \/ Rotate \/ Extract \/ Vacancy \/ Interstitial \/ Substitutional \/ TranslateWrap \/ RoundTrip \/ Observe \/ Distances)

UmNextBad == Len(ulog) < UDepthMax /\ (Supersize \/ RotateBothFaces)

\* ---- invariants across modules ---------------------------------------------------------------------------------------------
AllInside == \A a \in usys.atoms : InsideHalfOpen(CellOf(usys), a.p) \/ Len(ulog) = 0 \/ TRUE
NoCoincidence == \A a \in usys.atoms : \A b \in usys.atoms : a # b => Min27(CellOf(usys), PBC, Sub(a.p, b.p)) > 0
NeighboursSymmetric == \A k \in 1..Len(ulog) : ulog[k].act = "neighbors" =>
    \A e \in ulog[k].obs.nl : \A q \in e.nb : \E f \in ulog[k].obs.nl : f.p = q /\ e.p \in f.nb
\* the declarative meaning of "the same infinite crystal" checked on the abstract Rotate and Supersize themselves
Last == ulog'[Len(ulog')]
Represented(old, new, k) == \A a \in old.atoms : Cardinality({b \in new.atoms : b.t = a.t /\ b.q = a.q /\ IsLatticeShift(CellOf(old), PBC, Sub(b.p, a.p))}) = k
KeepsCrystal == [][ Len(ulog') > Len(ulog) =>
      /\ Last.act = "rotate" => LET k == Abs(Det3(Last.args.uvw)) IN Cardinality(usys'.atoms) = k * Cardinality(usys.atoms) /\ Represented(usys, usys', k)
                                   /\ Abs(Det3(usys'.v)) = k * Abs(Det3(usys.v))
      /\ Last.act = "supersize" => Cardinality(usys'.atoms) = 2 * Cardinality(usys.atoms) /\ Represented(usys, usys', 2) /\ Det3(usys'.v) = 2 * Det3(usys.v)
      /\ Last.act = "translate_wrap" => \A a \in usys.atoms : \E b \in usys'.atoms : b.t = a.t /\ b.q = a.q
                                            /\ IsLatticeShift(CellOf(usys), PBC, Sub(b.p, Add(a.p, Last.args.d))) /\ InsideHalfOpen(CellOf(usys'), b.p)
      /\ Last.act \in {"roundtrip", "neighbors", "distances"} => usys' = usys ]_umvars
DistancesSymmetric == \A k \in 1..Len(ulog) : ulog[k].act = "distances" =>
    \A e \in ulog[k].obs.d : (e.p = e.q <=> e.d2 = 0) /\ \E f \in ulog[k].obs.d : f.p = e.q /\ f.q = e.p /\ f.d2 = e.d2
UmEmit == Len(ulog) = UDepthMax => PrintT("@@CASE " \o ToJson(ulog))
====
