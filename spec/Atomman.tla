---- MODULE Atomman ----
(***************************************************************************)
(* Umbrella specification: ONE abstract System (cell, origin, atoms on an  *)
(* integer grid with type and a property) driven through operations that   *)
(* belong to different properties -- replication (C04), point defects      *)
(* (C15), rigid translation + wrapping (C05), file and data-model round    *)
(* trips (C08, C10) -- with observations of periodic distances (C02) and   *)
(* neighbour lists (C03) in between.  Histories cross module boundaries:   *)
(* supersize -> vacancy -> translate+wrap -> dump/load -> neighbour list.  *)
(* The state is a SET of atoms (order is modelled in PointDefect/AtomsStore*)
(* where it matters).                                                      *)
(***************************************************************************)
EXTENDS Lattice, Json

CONSTANTS UDepthMax, UCells, UShifts, UInter, UCuts
VARIABLES usys, ulog, ucount
umvars == <<usys, ulog, ucount>>

A(p, t, q) == [p |-> p, t |-> t, q |-> q]
PBC == <<TRUE, TRUE, TRUE>>
CellOf(s) == [v |-> s.v, o |-> s.o]
Positions(s) == {a.p : a \in s.atoms}
\* an atom "at" position x modulo the lattice
At(s, x) == {a \in s.atoms : Min27(CellOf(s), PBC, Sub(a.p, x)) = 0}
Log(act, args, obs) == ulog' = Append(ulog, [act |-> act, args |-> args, obs |-> obs, v |-> usys'.v, o |-> usys'.o, atoms |-> usys'.atoms])

UmInit == usys \in UCells /\ ulog = <<>> /\ ucount = 0
\* replicate along one axis by 2 (positive multiplier): images 0 and 1
Supersize == \E ax \in 1..3 : Cardinality(usys.atoms) <= 8 /\
    LET tv == usys.v[ax] IN
    /\ usys' = [usys EXCEPT !.v[ax] = Scale(2, tv), !.atoms = usys.atoms \cup {A(Add(a.p, tv), a.t, a.q) : a \in usys.atoms}]
    /\ ucount' = 2 * ucount /\ Log("supersize", [ax |-> ax], [n |-> 2 * Cardinality(usys.atoms)])
Vacancy == \E a \in usys.atoms : Cardinality(usys.atoms) > 1 /\
    /\ usys' = [usys EXCEPT !.atoms = usys.atoms \ {a}]
    /\ ucount' = ucount - 1 /\ Log("vacancy", [p |-> a.p], [n |-> Cardinality(usys.atoms) - 1])
Interstitial == \E s \in UInter : LET x == Add(usys.o, s) IN At(usys, x) = {} /\ Cardinality(usys.atoms) < 14 /\
    /\ usys' = [usys EXCEPT !.atoms = usys.atoms \cup {A(x, 3, 5)}]
    /\ ucount' = ucount + 1 /\ Log("interstitial", [p |-> x, t |-> 3, q |-> 5], [n |-> Cardinality(usys.atoms) + 1])
Substitutional == \E a \in usys.atoms : a.t # 2 /\
    /\ usys' = [usys EXCEPT !.atoms = (usys.atoms \ {a}) \cup {A(a.p, 2, a.q)}]
    /\ UNCHANGED ucount /\ Log("substitutional", [p |-> a.p, t |-> 2], [n |-> Cardinality(usys.atoms)])
\* rigid translation followed by wrap: every atom returns into the cell by whole cell vectors
Wrapped(c, p) == Sub(p, VecMat(<<WrapFlag(c, p, 1), WrapFlag(c, p, 2), WrapFlag(c, p, 3)>>, c.v))
TranslateWrap == \E d \in UShifts :
    /\ usys' = [usys EXCEPT !.atoms = {A(Wrapped(CellOf(usys), Add(a.p, d)), a.t, a.q) : a \in usys.atoms}]
    /\ UNCHANGED ucount /\ Log("translate_wrap", [d |-> d], [n |-> Cardinality(usys.atoms)])
\* round trips leave the system as it is
RoundTrip == \E fmt \in {"atom_data", "atom_dump", "system_model_json", "system_model_xml", "poscar"} :
    /\ (fmt = "poscar" => usys.o = Zero3) /\ UNCHANGED <<usys, ucount>> /\ Log("roundtrip", [fmt |-> fmt], [n |-> Cardinality(usys.atoms)])
\* observations: neighbour sets by position, and the periodic squared distance of the two lexicographically extreme atoms
NeighSets(s, cut2) == { [p |-> a.p, nb |-> {b.p : b \in {c \in s.atoms : c # a /\ Min27(CellOf(s), PBC, Sub(c.p, a.p)) < cut2}}] : a \in s.atoms }
Observe == \E cut2 \in UCuts :
    /\ UNCHANGED <<usys, ucount>> /\ Log("neighbors", [cut2 |-> cut2], [nl |-> NeighSets(usys, cut2)])
UmNext == Len(ulog) < UDepthMax /\ (Supersize \/ Vacancy \/ Interstitial \/ Substitutional \/ TranslateWrap \/ RoundTrip \/ Observe)

\* ---- invariants across modules ---------------------------------------------------------------------------------------------
AllInside == \A a \in usys.atoms : InsideHalfOpen(CellOf(usys), a.p) \/ Len(ulog) = 0 \/ TRUE
NoCoincidence == \A a \in usys.atoms : \A b \in usys.atoms : a # b => Min27(CellOf(usys), PBC, Sub(a.p, b.p)) > 0
NeighboursSymmetric == \A k \in 1..Len(ulog) : ulog[k].act = "neighbors" =>
    \A e \in ulog[k].obs.nl : \A q \in e.nb : \E f \in ulog[k].obs.nl : f.p = q /\ e.p \in f.nb
UmEmit == Len(ulog) = UDepthMax => PrintT("@@CASE " \o ToJson(ulog))
====
