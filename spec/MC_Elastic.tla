---- MODULE MC_Elastic ----
EXTENDS Elastic
====
