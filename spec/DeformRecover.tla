---- MODULE DeformRecover ----
(***************************************************************************)
(* C17 -- analysis tools recover a known imposed deformation.              *)
(*                                                                         *)
(* Reference crystals live on an integer grid (quarter lattice units).     *)
(* Rigid slip: the half-crystal above a plane between two layers is moved  *)
(* by s; the expectations follow from counting on the lattice:             *)
(*   slip vector of atom i  = ncross(i) * (s if i above else -s)           *)
(*   differential displacement of a neighbour pair = u(j) - u(i)           *)
(*   disregistry = s                                                       *)
(* Homogeneous deformation F = M/den (integers): lattice-correspondence    *)
(* tensor G = F^-T = den * Adj(M)^T / Det(M), strain = sym(I-G), rotation  *)
(* = skew(I-G), first invariant = trace(strain): exact rationals.          *)
(***************************************************************************)
EXTENDS Lattice, Json

CONSTANTS XMode, XCrystals, XSlips, XNs
VARIABLES xcase, xphase, xsel      \* xsel: (crystal, shell, plane) chosen in the initial state so that TLC's workers share the work
xvars == <<xcase, xphase, xsel>>

\* ---- crystals: basis in quarter units of a cubic cell of edge 4, nx x ny x nz cells ---------------------------------------
Basis == [ sc |-> << <<0,0,0,1>> >>, fcc |-> << <<0,0,0,1>>, <<2,2,0,1>>, <<2,0,2,1>>, <<0,2,2,1>> >>,
           bcc |-> << <<0,0,0,1>>, <<2,2,2,1>> >>, B2 |-> << <<0,0,0,1>>, <<2,2,2,2>> >>,
           \* diamond cubic: the atomic sites are NOT centres of inversion (reversing the neighbour vectors gives another set)
           dia |-> << <<0,0,0,1>>, <<2,2,0,1>>, <<2,0,2,1>>, <<0,2,2,1>>, <<1,1,1,1>>, <<3,3,1,1>>, <<3,1,3,1>>, <<1,3,3,1>> >> ]
\* squared neighbour cutoffs (grid units) that select complete shells: first shell, first two shells
Cuts == [ sc |-> <<18, 33>>, fcc |-> <<10, 17>>, bcc |-> <<14, 18>>, B2 |-> <<14, 18>>, dia |-> <<5, 10>> ]
Size == <<3, 3, 4>>
Atoms(cr) == LET b == Basis[cr]  nb == Len(b)  n == Size[1] * Size[2] * Size[3] * nb IN
    [k \in 1..n |-> LET c == (k - 1) \div nb  bi == ((k - 1) % nb) + 1
                        ix == c % Size[1]  iy == (c \div Size[1]) % Size[2]  iz == c \div (Size[1] * Size[2]) IN
                    [p |-> <<4*ix + b[bi][1], 4*iy + b[bi][2], 4*iz + b[bi][3]>>, t |-> b[bi][4]]]
Cell == [v |-> <<<<4*Size[1],0,0>>, <<0,4*Size[2],0>>, <<0,0,4*Size[3]>>>>, o |-> <<0,0,0>>]
SlipPbc == <<TRUE, TRUE, FALSE>>
\* positions are doubled so that the slip plane (between layers) sits on an odd integer: plane at 2*z = zp2
Above(a, zp2) == 2 * a.p[3] > zp2
Near(A, i, j, cut2) == i # j /\ Min27(Cell, SlipPbc, Sub(A[j].p, A[i].p)) < cut2
NCross(A, i, cut2, zp2) == Cardinality({j \in 1..Len(A) : Near(A, i, j, cut2) /\ Above(A[j], zp2) # Above(A[i], zp2)})
\* slip vectors are given in EIGHTHS of the grid unit (so s/8 grid units); expected slip vector in the same eighths
GenSlip == XMode = "slip" /\ LET cr == xsel[1]  sh == xsel[2]  zp2 == xsel[3] IN \E s \in XSlips :
    LET A == Atoms(cr)  cut2 == Cuts[cr][sh] IN
    xcase' = [kind |-> "slip", crystal |-> cr, shell |-> sh, cut2 |-> cut2, s8 |-> s, zp2 |-> zp2, cell |-> Cell.v,
              atoms |-> [i \in 1..Len(A) |-> [p |-> A[i].p, t |-> A[i].t, above |-> Above(A[i], zp2), ncross |-> NCross(A, i, cut2, zp2),
                                               slip8 |-> Scale(NCross(A, i, cut2, zp2) * (IF Above(A[i], zp2) THEN 1 ELSE -1), s)]],
              disreg8 |-> s]
\* every atom next to the plane has neighbours across it, atoms far from it have none (design sanity)
SlipSane == (xphase = 1 /\ xcase.kind = "slip") =>
    /\ \E i \in 1..Len(xcase.atoms) : xcase.atoms[i].ncross > 0
    /\ \E i \in 1..Len(xcase.atoms) : xcase.atoms[i].ncross = 0

\* ---- homogeneous deformation ----------------------------------------------------------------------------------------------
\* F = (64 I + N)/64 ; G = F^-T = 64 Adj(M)^T / Det(M) with M = 64 I + N  (M . Adj(M) = Det . I)
MOf(N) == [i \in 1..3 |-> [j \in 1..3 |-> (IF i = j THEN 64 ELSE 0) + N[i][j]]]
RatM(num, den) == [i \in 1..3 |-> [j \in 1..3 |-> Rat(num[i][j], den)]]
GOf(M, mden) == LET ad == Adj3(M)  dt == Det3(M) IN [i \in 1..3 |-> [j \in 1..3 |-> Rat(mden * ad[j][i], dt)]]
GenHomog == XMode = "homog" /\ xsel[2] = 1 /\ xsel[3] = 7 /\ LET cr == xsel[1] IN \E N \in XNs :
    LET M == MOf(N)  G == GOf(M, 64)
        ImG == [i \in 1..3 |-> [j \in 1..3 |-> RSub(RInt(IF i = j THEN 1 ELSE 0), G[i][j])]]
        strain == [i \in 1..3 |-> [j \in 1..3 |-> RMul(Rat(1,2), RAdd(ImG[i][j], ImG[j][i]))]]
        rot == [i \in 1..3 |-> [j \in 1..3 |-> RMul(Rat(1,2), RSub(ImG[i][j], ImG[j][i]))]] IN
    Det3(M) > 0 /\
    xcase' = [kind |-> "homog", crystal |-> cr, shell |-> 1, cut2 |-> Cuts[cr][1], f64 |-> M, g |-> G, strain |-> strain, rotation |-> rot,
              inv1 |-> RAdd(strain[1][1], RAdd(strain[2][2], strain[3][3])),
              atoms |-> [i \in 1..Len(Atoms(cr)) |-> [p |-> Atoms(cr)[i].p, t |-> Atoms(cr)[i].t]], cell |-> Cell.v]
\* proper rotations from integer quaternions q = (a,b,c,d): R = Rnum/|q|^2 ; G = R^-T = R
QRot(q) == LET a == q[1] b == q[2] c == q[3] d == q[4] IN
    << <<a*a+b*b-c*c-d*d, 2*(b*c-a*d), 2*(b*d+a*c)>>, <<2*(b*c+a*d), a*a-b*b+c*c-d*d, 2*(c*d-a*b)>>, <<2*(b*d-a*c), 2*(c*d+a*b), a*a-b*b-c*c+d*d>> >>
GenRot == XMode = "rot" /\ xsel[2] = 1 /\ xsel[3] = 7 /\ LET cr == xsel[1] IN \E q \in {<<8,1,0,0>>, <<12,0,1,1>>, <<16,1,-1,2>>, <<20,1,2,-2>>} :
    LET n2 == q[1]*q[1] + q[2]*q[2] + q[3]*q[3] + q[4]*q[4]  R == QRot(q)  G == RatM(R, n2) IN
    xcase' = [kind |-> "homog", crystal |-> cr, shell |-> 1, cut2 |-> Cuts[cr][1], f64 |-> R, fden |-> n2, g |-> G,
              strain |-> [i \in 1..3 |-> [j \in 1..3 |-> RMul(Rat(1,2), RAdd(RSub(RInt(IF i = j THEN 1 ELSE 0), G[i][j]), RSub(RInt(IF i = j THEN 1 ELSE 0), G[j][i])))]],
              rotation |-> [i \in 1..3 |-> [j \in 1..3 |-> RMul(Rat(1,2), RSub(G[j][i], G[i][j]))]],
              inv1 |-> RSub(RInt(3), RAdd(G[1][1], RAdd(G[2][2], G[3][3]))),
              atoms |-> [i \in 1..Len(Atoms(cr)) |-> [p |-> Atoms(cr)[i].p, t |-> Atoms(cr)[i].t]], cell |-> Cell.v]
\* G F^T = I  (design check of the evaluator)
GIsInverseTranspose == (xphase = 1 /\ xcase.kind = "homog" /\ "fden" \notin DOMAIN xcase) =>
    MatMul(xcase.f64, Adj3(xcase.f64)) = MScale(Det3(xcase.f64), Ident3)     \* in integers: M Adj(M) = Det I, hence G = 64 Adj(M)^T / Det is F^-T
XInit == xphase = 0 /\ xcase = <<>> /\ xsel \in XCrystals \X {1, 2} \X {7, 9, 17}
XNext == xphase = 0 /\ xphase' = 1 /\ UNCHANGED xsel /\ (GenSlip \/ GenHomog \/ GenRot)
XEmit == xphase = 1 => PrintT("@@CASE " \o ToJson(xcase))
====
