---- MODULE Surf_Trace ----
EXTENDS SurfaceBasis, IOUtils
Tr == ndJsonDeserialize(IOEnv.TRACE_FILE)
VARIABLE l
TInit == l = 1 /\ mcase = 0 /\ mphase = 0 /\ scase = 0 /\ sphase = 0
TNext == l <= Len(Tr) /\ l' = l + 1 /\ UNCHANGED <<mvars, svars>>
Check == l <= Len(Tr) =>
           LET w == VerdictSurf(Tr[l]) IN (w = "ok" \/ PrintT("@@BAD " \o ToJson([l |-> l, clause |-> w])))
Done == (l = Len(Tr) + 1) => PrintT("@@DONE " \o ToString(Len(Tr)))
====
