---- MODULE MC_DvectNeg ----
(* Negative model (anti-vacuity): the candidate search misses the +1 image along the first cell vector
   -- the classic range(-1,1) slip.  NearestTheorem MUST be violated by TLC for this definition. *)
EXTENDS MC_Dvect
BadImages(c,pb,d) == { Add(d, VecMat(<<x,y,z>>, c.v)) :
                         x \in (IF pb[1] THEN {-1,0} ELSE {0}), y \in Rng(pb[2],1), z \in Rng(pb[3],1) }
BadMin(c,pb,d) == MinOf({ Norm2(e) : e \in BadImages(c,pb,d) })
NearestTheoremNeg == (phase = 2 /\ Antecedent(cell, pbc, p0, p1)) =>
    BadMin(cell, pbc, Sub(p1,p0)) = TrueNearest(cell, pbc, Sub(p1,p0))
====
