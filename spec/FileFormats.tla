---- MODULE FileFormats ----
(***************************************************************************)
(* C07 -- the written file is the trace.  A tokenizer that knows nothing   *)
(* about atomman turns every line of a written file into a record (kind +  *)
(* integers at the printed precision); the grammars and the meaning of the *)
(* columns below are written from the LAMMPS read_data / dump and the VASP *)
(* POSCAR documentation.  A grammar is a state machine over the lines      *)
(* (Step); Accepts runs it; the semantic clauses compare the file with the *)
(* system it was written for (r.sys, integers at the same precision,       *)
(* converted to the requested unit style by the driver from symbolic       *)
(* units).                                                                 *)
(***************************************************************************)
EXTENDS Integers, Sequences, FiniteSets, TLC, Json

VARIABLES fdummy
fvars == <<fdummy>>
Abs(x) == IF x < 0 THEN -x ELSE x
Min2(a, b) == IF a < b THEN a ELSE b
Max2(a, b) == IF a > b THEN a ELSE b

\* ---- column tables (LAMMPS read_data, "Atoms" section) : kind of every column after id ---------------------------------
\* kinds: "type", "mol", "q" (charge), "x","y","z" (length), "diameter" (length), "density", "flag" (integer flag), "mass"
AtomsCols == [ atomic    |-> <<"id", "type", "x", "y", "z">>,
               charge    |-> <<"id", "type", "q", "x", "y", "z">>,
               molecular |-> <<"id", "mol", "type", "x", "y", "z">>,
               bond      |-> <<"id", "mol", "type", "x", "y", "z">>,
               angle     |-> <<"id", "mol", "type", "x", "y", "z">>,
               full      |-> <<"id", "mol", "type", "q", "x", "y", "z">>,
               sphere    |-> <<"id", "type", "diameter", "density", "x", "y", "z">>,
               hybridq   |-> <<"id", "type", "x", "y", "z", "q">>,           \* "hybrid charge": atomic columns, then the sub-style's extra ones
               hybridsq  |-> <<"id", "type", "x", "y", "z", "diameter", "density", "q">>,      \* "hybrid sphere charge"
               \* less common styles: "o1".."o5" are the style's own columns in the order of the LAMMPS manual (values given by y.atoms[id][8])
               peri      |-> <<"id", "type", "o1", "density", "x", "y", "z">>,                             \* volume
               dipole    |-> <<"id", "type", "q", "x", "y", "z", "o1", "o2", "o3">>,                       \* mux muy muz
               electron  |-> <<"id", "type", "q", "o1", "o2", "x", "y", "z">>,                             \* spin eradius
               ellipsoid |-> <<"id", "type", "o1", "density", "x", "y", "z">>,                             \* ellipsoidflag
               line      |-> <<"id", "mol", "type", "o1", "density", "x", "y", "z">>,                      \* lineflag
               tri       |-> <<"id", "mol", "type", "o1", "density", "x", "y", "z">>,                      \* triangleflag
               body      |-> <<"id", "type", "o1", "o2", "x", "y", "z">>,                                  \* bodyflag mass
               wavepacket |-> <<"id", "type", "q", "o1", "o2", "o3", "o4", "o5", "x", "y", "z">> ]         \* spin eradius etag cs_re cs_im
OtherNames == <<"o1", "o2", "o3", "o4", "o5">>
\* Velocities section: id vx vy vz, plus the angular velocity wx wy wz for sphere-like styles (y.nvel = 4 or 7)
VelCols == << "id", "vx", "vy", "vz" >>
IndexOf(seq, v) == CHOOSE i \in 1..Len(seq) : seq[i] = v
Has(seq, v) == \E i \in 1..Len(seq) : seq[i] = v

\* ---- LAMMPS data file grammar ------------------------------------------------------------------------------------------
\* state: [ph, natoms, ntypes, b (bounds seen per axis), tilt, rows, vrows, err]
GInit == [ph |-> "title", natoms |-> -1, ntypes |-> -1, lo |-> <<0,0,0>>, hi |-> <<0,0,0>>, seen |-> {}, tilt |-> <<0,0,0>>, hastilt |-> FALSE,
          rows |-> <<>>, vrows |-> <<>>, style |-> "", err |-> "ok"]
Fail(s, e) == IF s.err = "ok" THEN [s EXCEPT !.err = e] ELSE s
Step(s, ln) ==
    IF s.err # "ok" THEN s
    ELSE IF s.ph = "title" THEN [s EXCEPT !.ph = "header"]                       \* the first line is a title and is skipped
    ELSE IF s.ph = "header" THEN
        CASE ln.k = "blank" -> s
          [] ln.k = "natoms" -> IF s.natoms # -1 THEN Fail(s, "atom_count_given_twice") ELSE [s EXCEPT !.natoms = ln.n]
          [] ln.k = "ntypes" -> IF s.ntypes # -1 THEN Fail(s, "type_count_given_twice") ELSE [s EXCEPT !.ntypes = ln.n]
          [] ln.k = "bounds" -> IF ln.ax \in s.seen THEN Fail(s, "bounds_given_twice")
                                ELSE [s EXCEPT !.seen = @ \cup {ln.ax}, !.lo[ln.ax] = ln.lo, !.hi[ln.ax] = ln.hi]
          [] ln.k = "tilt" -> IF s.hastilt THEN Fail(s, "tilt_given_twice") ELSE [s EXCEPT !.hastilt = TRUE, !.tilt = ln.t]
          [] ln.k = "section" -> IF s.natoms = -1 \/ s.ntypes = -1 \/ s.seen # {1,2,3} THEN Fail(s, "section_before_complete_header")
                                 ELSE IF ln.name = "Atoms" THEN [s EXCEPT !.ph = "atoms_gap", !.style = ln.comment]
                                 ELSE Fail(s, "first_section_is_not_Atoms")
          [] OTHER -> Fail(s, "unrecognised_header_line")
    ELSE IF s.ph = "atoms_gap" THEN (IF ln.k = "blank" THEN [s EXCEPT !.ph = "atoms"] ELSE Fail(s, "no_blank_line_after_section_keyword"))
    ELSE IF s.ph = "atoms" THEN
        CASE ln.k = "row" -> IF Len(s.rows) >= s.natoms THEN Fail(s, "more_atom_lines_than_declared") ELSE [s EXCEPT !.rows = Append(@, ln)]
          [] ln.k = "blank" -> IF Len(s.rows) = s.natoms THEN [s EXCEPT !.ph = "between"]
                               ELSE IF Len(s.rows) = 0 THEN s ELSE Fail(s, "fewer_atom_lines_than_declared")
          [] OTHER -> Fail(s, "unexpected_line_in_Atoms_section")
    ELSE IF s.ph = "between" THEN
        CASE ln.k = "blank" -> s
          [] ln.k = "section" -> IF ln.name = "Velocities" THEN [s EXCEPT !.ph = "vel_gap"] ELSE Fail(s, "unknown_section")
          [] OTHER -> Fail(s, "text_after_Atoms_section")
    ELSE IF s.ph = "vel_gap" THEN (IF ln.k = "blank" THEN [s EXCEPT !.ph = "vel"] ELSE Fail(s, "no_blank_line_after_section_keyword"))
    ELSE IF s.ph = "vel" THEN
        CASE ln.k = "row" -> IF Len(s.vrows) >= s.natoms THEN Fail(s, "more_velocity_lines_than_atoms") ELSE [s EXCEPT !.vrows = Append(@, ln)]
          [] ln.k = "blank" -> IF Len(s.vrows) = s.natoms THEN [s EXCEPT !.ph = "end"]
                               ELSE IF Len(s.vrows) = 0 THEN s ELSE Fail(s, "fewer_velocity_lines_than_atoms")
          [] OTHER -> Fail(s, "unexpected_line_in_Velocities_section")
    ELSE (IF ln.k = "blank" THEN s ELSE Fail(s, "text_after_last_section"))
RECURSIVE Run(_, _, _)
Run(s, lines, i) == IF i > Len(lines) THEN s ELSE Run(Step(s, lines[i]), lines, i + 1)
Finished(s) == IF s.err # "ok" THEN s.err
               ELSE IF s.ph = "atoms" /\ Len(s.rows) = s.natoms THEN "ok"
               ELSE IF s.ph = "vel" /\ Len(s.vrows) = s.natoms THEN "ok"
               ELSE IF s.ph \in {"between", "end"} THEN "ok" ELSE "file_ends_inside_" \o s.ph

\* ---- semantics of a data file -----------------------------------------------------------------------------------------
\* r.sys: [natoms, ntypes, style, tilted, atoms: per id <<type, mol, q, diameter, density, <<x,y,z>> >> (ints, unwrapped), vel: per id <<vx,vy,vz>> or <<>>,
\*         a, b, c: cell rows, o: origin, pbc]   all at the printed precision r.p (value * 10^p), slack r.slack units
Close(a, b, sl) == Abs(a - b) <= sl
TokenLimit == 32000
InsideTri(p, lo, hi, tilt, sl) ==
    \* LAMMPS triclinic box: x = xlo + lx*lamx + xy*lamy + xz*lamz, y = ylo + ly*lamy + yz*lamz, z = zlo + lz*lamz ; 0 <= lam <= 1.
    \* Back-substitution with integer division (each division rounds by at most one unit, added to the slack) keeps 32-bit products.
    LET lx == hi[1] - lo[1]  ly == hi[2] - lo[2]  lz == hi[3] - lo[3]
        dz == p[3] - lo[3]                                              \* lamz * lz
        dy == (p[2] - lo[2]) - (dz * tilt[3]) \div lz                    \* lamy * ly
        dx == (p[1] - lo[1]) - (dz * tilt[2]) \div lz - (dy * tilt[1]) \div ly
    IN /\ -sl <= dz /\ dz <= lz + sl
       /\ -sl - 2 <= dy /\ dy <= ly + sl + 2
       /\ -sl - 4 <= dx /\ dx <= lx + sl + 4
VerdictData(r) ==
    LET g == Run(GInit, r.lines, 1)  fin == Finished(g)  y == r.sys  sl == r.slack
        cols == AtomsCols[y.style]  nc == Len(cols)
    IN
    IF fin # "ok" THEN "malformed_" \o fin
    ELSE IF g.natoms # y.natoms THEN "atom_count_differs_from_the_system"
    ELSE IF g.ntypes < y.ntypes THEN "fewer_atom_types_declared_than_used"
    ELSE IF \E ax \in 1..3 : g.lo[ax] >= g.hi[ax] THEN "bounds_lo_not_below_hi"
    ELSE IF g.hastilt # y.tilted THEN "tilt_line_present_iff_the_cell_is_tilted_violated"
    \* along a non-periodic direction the writer may enlarge the cell (documented): that vector is then only required to contain the atoms
    ELSE IF (y.pbc[1] /\ ~Close(g.hi[1] - g.lo[1], y.a[1], 2*sl))
            \/ (y.pbc[2] /\ (~Close(g.hi[2] - g.lo[2], y.b[2], 2*sl) \/ ~Close(g.tilt[1], y.b[1], sl)))
            \/ (y.pbc[3] /\ (~Close(g.hi[3] - g.lo[3], y.c[3], 2*sl) \/ ~Close(g.tilt[2], y.c[1], sl) \/ ~Close(g.tilt[3], y.c[2], sl)))
         THEN "cell_lengths_or_tilts_differ_from_the_system"
    ELSE IF (\A ax \in 1..3 : y.pbc[ax]) /\ (\E ax \in 1..3 : ~Close(g.lo[ax], y.o[ax], sl)) THEN "cell_origin_differs_from_the_system"
    ELSE IF g.style # "" /\ g.style # y.stylename THEN "atom_style_comment_names_another_style"
    ELSE IF \E i \in 1..Len(g.rows) : Len(g.rows[i].v) \notin {nc, nc + 3} THEN "wrong_number_of_columns_for_the_atom_style"
    ELSE IF \E i \in 1..Len(g.rows) : ~g.rows[i].isint[1] \/ g.rows[i].v[1] < 1 \/ g.rows[i].v[1] > y.natoms THEN "atom_id_not_in_1_to_N"
    ELSE IF \E i \in 1..Len(g.rows) : \E j \in (i+1)..Len(g.rows) : g.rows[i].v[1] = g.rows[j].v[1] THEN "duplicate_atom_id"
    ELSE IF \E i \in 1..Len(g.rows) : LET row == g.rows[i]  ex == y.atoms[row.v[1]]  ty == row.v[IndexOf(cols, "type")] IN
              ~row.isint[IndexOf(cols, "type")] \/ ty < 1 \/ ty > g.ntypes \/ ty # ex[1] THEN "atom_type_wrong"
    ELSE IF Has(cols, "mol") /\ (\E i \in 1..Len(g.rows) : g.rows[i].v[IndexOf(cols, "mol")] # y.atoms[g.rows[i].v[1]][2]) THEN "molecule_id_wrong"
    ELSE IF Has(cols, "q") /\ (\E i \in 1..Len(g.rows) : ~Close(g.rows[i].v[IndexOf(cols, "q")], y.atoms[g.rows[i].v[1]][3], sl)) THEN "charge_not_in_the_requested_units"
    ELSE IF Has(cols, "diameter") /\ (\E i \in 1..Len(g.rows) : ~Close(g.rows[i].v[IndexOf(cols, "diameter")], y.atoms[g.rows[i].v[1]][4], sl)) THEN "diameter_not_in_the_requested_units"
    ELSE IF Has(cols, "density") /\ (\E i \in 1..Len(g.rows) : ~Close(g.rows[i].v[IndexOf(cols, "density")], y.atoms[g.rows[i].v[1]][5], sl)) THEN "density_not_in_the_requested_units"
    ELSE IF \E i \in 1..Len(g.rows) : \E k \in 1..5 : Has(cols, OtherNames[k]) /\
              ~Close(g.rows[i].v[IndexOf(cols, OtherNames[k])], y.atoms[g.rows[i].v[1]][8][k], sl) THEN "style_specific_column_wrong_or_misplaced"
    \* the systems of this model extend to at most 30 length units (30000 at the printed precision) from the coordinate origin in the
    \* file's own unit: a cell or position value beyond TokenLimit is a value in some other unit.  (Also keeps the products below in 32 bits.)
    ELSE IF (\E ax \in 1..3 : Abs(g.lo[ax]) > TokenLimit \/ Abs(g.hi[ax]) > TokenLimit \/ Abs(g.tilt[ax]) > TokenLimit)
            \/ (\E i \in 1..Len(g.rows) : LET row == g.rows[i]  ix == IndexOf(cols, "x") IN
                    (\E k \in 0..2 : Abs(row.v[ix+k]) > TokenLimit) \/ (Len(row.v) = nc + 3 /\ \E k \in 1..3 : Abs(row.v[nc+k]) > 1000))
         THEN "cell_or_position_value_far_beyond_the_extent_of_the_system"
    ELSE IF \E i \in 1..Len(g.rows) : LET row == g.rows[i]  ix == IndexOf(cols, "x")
                                            p == <<row.v[ix], row.v[ix+1], row.v[ix+2]>> IN
              ~InsideTri(p, g.lo, g.hi, g.tilt, 2*sl) THEN "atom_outside_the_written_bounds"
    ELSE IF \E i \in 1..Len(g.rows) : LET row == g.rows[i]  ix == IndexOf(cols, "x")  ex == y.atoms[row.v[1]][6]
                                            fl == IF Len(row.v) = nc + 3 THEN <<row.v[nc+1], row.v[nc+2], row.v[nc+3]>> ELSE <<0,0,0>>
                                            lx == g.hi[1] - g.lo[1]  ly == g.hi[2] - g.lo[2]  lz == g.hi[3] - g.lo[3]
                                            ux == row.v[ix]   + fl[1]*lx + fl[2]*g.tilt[1] + fl[3]*g.tilt[2]
                                            uy == row.v[ix+1] + fl[2]*ly + fl[3]*g.tilt[3]
                                            uz == row.v[ix+2] + fl[3]*lz
                                            s2 == sl * (1 + 2 * (Abs(fl[1]) + Abs(fl[2]) + Abs(fl[3]))) IN
              ~Close(ux, ex[1], s2) \/ ~Close(uy, ex[2], s2) \/ ~Close(uz, ex[3], s2) THEN "position_plus_image_flags_is_not_the_atom_position"
    ELSE IF \E i \in 1..Len(g.rows) : LET row == g.rows[i] IN Len(row.v) = nc + 3 /\
              (\E ax \in 1..3 : ~y.pbc[ax] /\ row.v[nc + ax] # 0) THEN "image_flag_along_a_non_periodic_direction"
    ELSE IF (Len(g.vrows) > 0) # (Len(y.vel) > 0) THEN "velocities_section_present_iff_the_system_has_velocities_violated"
    ELSE IF \E i \in 1..Len(g.vrows) : Len(g.vrows[i].v) # y.nvel \/ g.vrows[i].v[1] < 1 \/ g.vrows[i].v[1] > y.natoms THEN "velocity_line_malformed"
    ELSE IF \E i \in 1..Len(g.vrows) : \E j \in (i+1)..Len(g.vrows) : g.vrows[i].v[1] = g.vrows[j].v[1] THEN "duplicate_id_in_Velocities"
    ELSE IF \E i \in 1..Len(g.vrows) : LET row == g.vrows[i]  ex == y.vel[row.v[1]] IN
              \E d \in 1..3 : ~Close(row.v[1 + d], ex[d], sl) THEN "velocity_not_in_the_requested_units"
    ELSE IF y.nvel = 7 /\ (\E i \in 1..Len(g.vrows) : LET row == g.vrows[i]  ex == y.omega[row.v[1]] IN
              \E d \in 1..3 : ~Close(row.v[4 + d], ex[d], sl)) THEN "angular_velocity_not_in_the_requested_units"
    ELSE IF r.info.units # y.units THEN "command_snippet_names_another_unit_style"
    ELSE IF r.info.atom_style # y.stylename THEN "command_snippet_names_another_atom_style"
    ELSE IF r.info.boundary # [ax \in 1..3 |-> IF y.pbc[ax] THEN "p" ELSE "m"] /\ r.info.boundary # [ax \in 1..3 |-> IF y.pbc[ax] THEN "p" ELSE "f"]
         THEN "command_snippet_boundary_flags_differ_from_the_system"
    ELSE "ok"

\* ---- LAMMPS dump file -------------------------------------------------------------------------------------------------------
\* r.hdr: [natoms, tri (BOOLEAN), flags <<..>>, b: <<<<lo,hi[,tilt]>>...>>, cols: Seq(STRING)], r.rows: Seq of [v, isint]
VerdictDump(r) ==
    LET y == r.sys  sl == r.slack  h == r.hdr  cols == h.cols
        xy == IF h.tri THEN h.b[1][3] ELSE 0  xz == IF h.tri THEN h.b[2][3] ELSE 0  yz == IF h.tri THEN h.b[3][3] ELSE 0
        xlo == h.b[1][1] - Min2(Min2(0, xy), Min2(xz, xy + xz))  xhi == h.b[1][2] - Max2(Max2(0, xy), Max2(xz, xy + xz))
        ylo == h.b[2][1] - Min2(0, yz)  yhi == h.b[2][2] - Max2(0, yz)  zlo == h.b[3][1]  zhi == h.b[3][2]
    IN
    IF r.malformed # "ok" THEN "malformed_" \o r.malformed
    ELSE IF h.natoms # y.natoms \/ Len(r.rows) # y.natoms THEN "atom_count_differs_from_header_or_system"
    ELSE IF h.tri # y.tilted THEN "triclinic_header_iff_the_cell_is_tilted_violated"
    ELSE IF xlo >= xhi \/ ylo >= yhi \/ zlo >= zhi THEN "bounds_lo_not_below_hi"
    ELSE IF ~Close(xhi - xlo, y.a[1], 4*sl) \/ ~Close(yhi - ylo, y.b[2], 3*sl) \/ ~Close(zhi - zlo, y.c[3], 2*sl)
            \/ ~Close(xy, y.b[1], sl) \/ ~Close(xz, y.c[1], sl) \/ ~Close(yz, y.c[2], sl) THEN "bounding_box_convention_or_cell_wrong"
    ELSE IF ~Close(xlo, y.o[1], 3*sl) \/ ~Close(ylo, y.o[2], 2*sl) \/ ~Close(zlo, y.o[3], sl) THEN "cell_origin_differs_from_the_system"
    ELSE IF h.flags # [ax \in 1..3 |-> IF y.pbc[ax] THEN "pp" ELSE "fm"] /\ h.flags # [ax \in 1..3 |-> IF y.pbc[ax] THEN "pp" ELSE "ff"]
            /\ h.flags # [ax \in 1..3 |-> IF y.pbc[ax] THEN "pp" ELSE "mm"] THEN "boundary_flags_differ_from_the_system"
    ELSE IF ~Has(cols, "id") \/ ~Has(cols, "type") THEN "id_or_type_column_missing"
    ELSE IF \E i \in 1..Len(r.rows) : Len(r.rows[i].v) # Len(cols) THEN "row_length_differs_from_column_header"
    ELSE IF \E i \in 1..Len(r.rows) : \E j \in (i+1)..Len(r.rows) : r.rows[i].v[IndexOf(cols, "id")] = r.rows[j].v[IndexOf(cols, "id")] THEN "duplicate_atom_id"
    ELSE IF \E i \in 1..Len(r.rows) : LET id == r.rows[i].v[IndexOf(cols, "id")] IN id < 1 \/ id > y.natoms THEN "atom_id_not_in_1_to_N"
    ELSE IF \E i \in 1..Len(r.rows) : r.rows[i].v[IndexOf(cols, "type")] # y.atoms[r.rows[i].v[IndexOf(cols, "id")]][1] THEN "atom_type_wrong"
    ELSE IF Has(cols, "x") /\ (\E i \in 1..Len(r.rows) : LET row == r.rows[i]  ix == IndexOf(cols, "x")  ex == y.atoms[row.v[IndexOf(cols, "id")]][6] IN
              \E d \in 1..3 : ~Close(row.v[ix + d - 1], ex[d], sl)) THEN "position_wrong"
    ELSE IF Has(cols, "xs") /\ (\E i \in 1..Len(r.rows) : LET row == r.rows[i]  ix == IndexOf(cols, "xs")  ex == y.atoms[row.v[IndexOf(cols, "id")]][6]
                                  \* unscale with the WRITTEN cell:  x = xlo + xs*lx + ys*xy + zs*xz  (xs is printed with precision r.ps)
                                  s1 == row.v[ix]  s2 == row.v[ix+1]  s3 == row.v[ix+2]  P == r.ps
                                  X == xlo + (s1 * (xhi - xlo) + s2 * xy + s3 * xz) \div P
                                  Y == ylo + (s2 * (yhi - ylo) + s3 * yz) \div P
                                  Z == zlo + (s3 * (zhi - zlo)) \div P
                                  t == 4 * sl + 2 IN
              ~Close(X, ex[1], t) \/ ~Close(Y, ex[2], t) \/ ~Close(Z, ex[3], t)) THEN "scaled_position_does_not_unscale_to_the_atom_position"
    ELSE IF Has(cols, "vx") /\ (\E i \in 1..Len(r.rows) : LET row == r.rows[i]  ix == IndexOf(cols, "vx")  ex == y.vel[row.v[IndexOf(cols, "id")]] IN
              \E d \in 1..3 : ~Close(row.v[ix + d - 1], ex[d], sl)) THEN "velocity_not_in_the_requested_units"
    ELSE IF Has(cols, "q") /\ (\E i \in 1..Len(r.rows) : ~Close(r.rows[i].v[IndexOf(cols, "q")], y.atoms[r.rows[i].v[IndexOf(cols, "id")]][3], sl)) THEN "charge_not_in_the_requested_units"
    ELSE "ok"

\* ---- POSCAR -------------------------------------------------------------------------------------------------------------------
\* r.scale (x 10^p), r.lat: three rows, r.counts, r.symbols (possibly <<>>), r.mode "d" | "c", r.rows: positions;  all ints at precision p
VerdictPoscar(r) ==
    LET y == r.sys  sl == r.slack  P == r.pp
        n == Len(r.rows)
        RECURSIVE Sum(_, _)
        Sum(sq, k) == IF k = 0 THEN 0 ELSE sq[k] + Sum(sq, k - 1)
        tot == Sum(r.counts, Len(r.counts))
        \* actual lattice = scale * written  (both at precision P): actual*P = scale*written / P  -> compare cross-multiplied
        LatOK == \A i \in 1..3 : \A j \in 1..3 : Abs(r.scale * r.lat[i][j] - y.cell[i][j] * P) <= sl * (Abs(r.scale) + Abs(r.lat[i][j]) + P)
        \* atoms are written grouped by type 1..ntypes: expected order y.order (ids)
        Exp(k) == y.atoms[y.order[k]]
    IN
    IF r.malformed # "ok" THEN "malformed_" \o r.malformed
    ELSE IF r.scale <= 0 THEN "scale_factor_not_positive"
    ELSE IF ~LatOK THEN "scale_times_written_lattice_is_not_the_cell"
    ELSE IF tot # y.natoms \/ n # y.natoms THEN "counts_do_not_add_up_to_the_number_of_atoms"
    ELSE IF Len(r.counts) # y.ntypes THEN "number_of_count_entries_is_not_the_number_of_types"
    ELSE IF \E t \in 1..y.ntypes : r.counts[t] # Cardinality({i \in 1..y.natoms : y.atoms[i][1] = t}) THEN "count_per_type_wrong"
    ELSE IF Len(r.symbols) > 0 /\ r.symbols # y.symbols THEN "symbols_line_differs_from_the_system"
    ELSE IF r.mode = "d" /\ (\E k \in 1..n : \E d \in 1..3 : ~Close(r.rows[k][d], Exp(k)[7][d], sl)) THEN "direct_coordinates_are_not_the_fractional_positions"
    ELSE IF r.mode = "c" /\ (\E k \in 1..n : \E d \in 1..3 :
              Abs(r.scale * r.rows[k][d] - Exp(k)[6][d] * P) > sl * (Abs(r.scale) + Abs(r.rows[k][d]) + P)) THEN "scale_times_cartesian_coordinate_is_not_the_atom_position"
    ELSE "ok"
VerdictFile(r) == CASE r.ev = "data" -> VerdictData(r) [] r.ev = "dump" -> VerdictDump(r) [] r.ev = "poscar" -> VerdictPoscar(r) [] OTHER -> "unknown_event"
====
