---- MODULE Integ_Trace ----
EXTENDS Integrators, IOUtils
Tr == ndJsonDeserialize(IOEnv.TRACE_FILE)
VARIABLE l
TInit == l = 1 /\ icase = 0 /\ iphase = 0 /\ imat = 0
TNext == l <= Len(Tr) /\ l' = l + 1 /\ UNCHANGED ivars
Check == l <= Len(Tr) =>
           LET w == VerdictInteg(Tr[l]) IN (w = "ok" \/ PrintT("@@BAD " \o ToJson([l |-> l, clause |-> w])))
Done == (l = Len(Tr) + 1) => PrintT("@@DONE " \o ToString(Len(Tr)))
====
