---- MODULE DataModel ----
(***************************************************************************)
(* C10 -- JSON / XML data-model round trip.                                *)
(*                                                                         *)
(* State machine of a store: a configuration of working units is in force  *)
(* (cfg), objects are WRITTEN to the data model under it, the model is     *)
(* ENCODED to text (json / xml) or kept as a tree, the working units are   *)
(* RESET, and the object is READ back.  The property is the identity on    *)
(* the abstract content:  what(read) = what(written)  -- shape, entries,   *)
(* kind, cell, flags, symbols, masses, every per-atom property -- and, for *)
(* quantities stored with a unit, equality of the PHYSICAL value           *)
(* (expressed in that unit) whatever cfg was in force at either end.       *)
(* TLC enumerates the whole option space as histories; every history is    *)
(* replayed on the real code.                                              *)
(***************************************************************************)
EXTENDS Integers, Sequences, FiniteSets, TLC, Json

CONSTANTS DMode      \* "value" | "system" | "other"
VARIABLES cfg, store, dh
dvars == <<cfg, store, dh>>

Cfgs == {"SI", "metal", "seed7", "nm_g_fs"}
Encs == {"tree", "json", "xml"}
Shapes == { <<>>, <<1>>, <<2>>, <<3>>, <<1,1>>, <<1,3>>, <<3,1>>, <<2,2>>, <<2,1,2>>, <<3,3,3>> }
Kinds == {"int", "float"}
Units == {"None", "angstrom", "GPa", "eV/angstrom^3"}

\* what was written (abstract content)
ValueObj(sh, kind, unit) == [what |-> "value", shape |-> sh, kind |-> kind, unit |-> unit]
\* systems: number of atoms, how many types, which symbols / masses are known, which extra properties with which unit, box unit
PropSets == { <<>>, << [name |-> "q", kind |-> "int", rank |-> 1, unit |-> "None"] >>,
              << [name |-> "vel", kind |-> "float", rank |-> 2, unit |-> "angstrom/ps"], [name |-> "tag", kind |-> "str", rank |-> 1, unit |-> "None"] >>,
              << [name |-> "stress", kind |-> "float", rank |-> 3, unit |-> "GPa"], [name |-> "spos", kind |-> "float", rank |-> 2, unit |-> "scaled"] >> }
SystemObj(n, nt, sym, mas, props, posunit, boxunit) ==
    [what |-> "system", n |-> n, ntypes |-> nt, symbols |-> sym, masses |-> mas, props |-> props, posunit |-> posunit, boxunit |-> boxunit]
OtherObjs == { [what |-> "box", unit |-> u] : u \in {"angstrom", "nm"} } \cup { [what |-> "atoms", posunit |-> u] : u \in {"None", "nm"} }
              \cup { [what |-> "elastic", unit |-> u, system |-> s] : u \in {"GPa", "eV/angstrom^3"}, s \in {"cubic", "hexagonal", "triclinic", "isotropic"} }

DInit == cfg \in Cfgs /\ store = <<>> /\ dh = <<>>
Objects == IF DMode = "value" THEN { ValueObj(sh, k, u) : sh \in Shapes, k \in Kinds, u \in Units }
           ELSE IF DMode = "system" THEN
                { SystemObj(n, nt, sym, mas, pr, pu, bu) : n \in {1, 3}, nt \in {1, 2}, sym \in {"all", "none", "first"}, mas \in {"all", "none", "notfirst"},
                  pr \in PropSets, pu \in {"angstrom", "scaled", "nm"}, bu \in {"angstrom", "nm"} }
           ELSE OtherObjs
Write == Len(dh) = 0 /\ \E ob \in Objects : \E enc \in Encs :
            store' = [obj |-> ob, enc |-> enc, wcfg |-> cfg] /\ UNCHANGED cfg /\
            dh' = Append(dh, [act |-> "write", obj |-> ob, enc |-> enc, cfg |-> cfg])
Reset == Len(dh) = 1 /\ \E c \in Cfgs : cfg' = c /\ UNCHANGED store /\ dh' = Append(dh, [act |-> "reset", cfg |-> c])
\* the identity: reading returns exactly the abstract content that was written, physical values unchanged
Read == Len(dh) = 2 /\ UNCHANGED <<cfg, store>> /\ dh' = Append(dh, [act |-> "read", expect |-> store.obj, cfg |-> cfg])
DNext == Write \/ Reset \/ Read
DEmit == Len(dh) = 3 => PrintT("@@CASE " \o ToJson(dh))
ReadIsWritten == Len(dh) = 3 => dh[3].expect = dh[1].obj
====
