---- MODULE RoundTrip ----
(***************************************************************************)
(* C08 -- load(dump(s)) = s for the text formats atomman both writes and   *)
(* reads.  State machine: a system S (described abstractly), a FILE        *)
(* produced by Dump(fmt, opts), optionally PERTURBED in ways the format    *)
(* allows (row order where ids exist, comments, blank lines) or damaged    *)
(* (a required section removed), then LOADED from a string / path /        *)
(* stream, possibly dumped and loaded again.  Carried(fmt) says which      *)
(* fields the format stores, Norm(fmt) which documented normalisation      *)
(* applies; the expected outcome of every history is computed here and     *)
(* the real writer/loader pair is replayed against it.                     *)
(***************************************************************************)
EXTENDS Integers, Sequences, FiniteSets, TLC, Json

CONSTANTS RMode       \* which format this configuration enumerates
VARIABLES rsys, rfile, rh
rvars == <<rsys, rfile, rh>>

Cells == {"ortho", "tri"}
Places == {"inside", "outside", "face"}
TypeSets == {"one", "two", "gap"}            \* gap: types 1 and 3 present, 2 absent
PropSets == { {}, {"velocity"}, {"charge"}, {"velocity", "charge"}, {"w"}, {"velocity", "w", "t"}, {"charge", "rare"} }    \* "rare": the columns of the less common atom styles
Pbcs == {"ppp", "pfp", "fpf"}
Systems == [cell : Cells, origin : BOOLEAN, place : Places, types : TypeSets, symbols : BOOLEAN, props : PropSets, pbc : Pbcs]

\* options per format
RareStyles == {"molecular", "sphere", "dipole", "body", "peri", "electron", "ellipsoid"}
DataOpts == [atom_style : {"atomic", "charge", "full", "hybrid charge"} \cup RareStyles, units : {"metal", "si", "real", "nano"}, ff : {"%.13f", "%.5e"}]
DumpOpts == [units : {"metal", "si"}, scaled : BOOLEAN, ff : {"%.13f", "%.13e"}]
TableOpts == [withid : BOOLEAN, scaled : BOOLEAN, ff : {"%.13f"}]
PoscarOpts == [style : {"direct", "cartesian"}, scale : {1, 2}, ff : {"%.13e"}]
OptsOf(fmt) == CASE fmt = "atom_data" -> DataOpts [] fmt = "atom_dump" -> DumpOpts [] fmt = "table" -> TableOpts [] fmt = "poscar" -> PoscarOpts

\* what a format can carry
StyleProps(o) == IF o.atom_style \in {"charge", "full", "hybrid charge"} THEN {"charge"}
                 ELSE IF o.atom_style \in {"dipole", "electron"} THEN {"charge", "rare"}
                 ELSE IF o.atom_style \in RareStyles THEN {"rare"} ELSE {}
CarriedProps(fmt, o, s) ==
    CASE fmt = "atom_data" -> (s.props \cap ({"velocity"} \cup StyleProps(o)))
      [] fmt = "atom_dump" -> s.props
      [] fmt = "table"     -> s.props
      [] fmt = "poscar"    -> {}
Carries(fmt) == [ cell |-> TRUE, origin |-> fmt # "poscar" /\ fmt # "table", types |-> TRUE, pos |-> TRUE,
                  pbc |-> fmt = "atom_dump", symbols |-> fmt = "poscar", ids |-> fmt \in {"atom_data", "atom_dump"} ]
\* documented normalisations
Norm(fmt, s) == CASE fmt = "atom_data" -> "wrapped_with_image_flags_restored"
                  [] fmt = "poscar" -> "grouped_by_type"
                  [] OTHER -> "identity"
\* a writer needs what its style lists
Writable(fmt, o, s) ==
    CASE fmt = "atom_data" -> (StyleProps(o) \subseteq s.props) /\ (("rare" \in s.props) <=> (o.atom_style \in RareStyles))
                              /\ (o.units = "nano" => o.atom_style \in RareStyles \cup {"hybrid charge"})       \* keeps the product small
      [] fmt = "poscar" -> (~s.origin /\ s.pbc = "ppp")           \* POSCAR has neither origin nor flags
      [] fmt = "table" -> TRUE
      [] OTHER -> TRUE
Perturbs(fmt, o) ==
    CASE fmt = "atom_data" -> {"none", "permute_rows", "comments", "blank_lines", "drop_atoms_count", "drop_bounds", "drop_atoms_section"}
      [] fmt = "atom_dump" -> {"none", "permute_rows"}
      [] fmt = "table" -> IF o.withid THEN {"none", "permute_rows", "blank_lines"} ELSE {"none", "blank_lines"}
      [] fmt = "poscar" -> {"none"}
Damaged(p) == p \in {"drop_atoms_count", "drop_bounds", "drop_atoms_section"}

RInit == rsys \in Systems /\ rfile = <<>> /\ rh = <<>>
DumpLoad == Len(rh) = 0 /\ UNCHANGED rsys /\
    \E o \in OptsOf(RMode) : \E p \in Perturbs(RMode, o) : \E kind \in {"string", "path", "stream"} : \E again \in BOOLEAN :
      Writable(RMode, o, rsys) /\ (Damaged(p) => ~again) /\
      rfile' = [fmt |-> RMode, opts |-> o, perturb |-> p] /\
      rh' = << [fmt |-> RMode, opts |-> o, perturb |-> p, input |-> kind, again |-> again, sys |-> rsys,
                expect |-> IF Damaged(p) THEN [refused |-> "FileFormatError"]
                           ELSE [carries |-> Carries(RMode), props |-> CarriedProps(RMode, o, rsys), norm |-> Norm(RMode, rsys)]] >>
RNext == DumpLoad
REmit == Len(rh) = 1 => PrintT("@@CASE " \o ToJson(rh[1]))
\* design-level: what is carried never exceeds what the system has, and a damaged file is never "loaded"
Sane == Len(rh) = 1 => ( ("refused" \in DOMAIN rh[1].expect) <=> Damaged(rh[1].perturb) )
                        /\ ("props" \in DOMAIN rh[1].expect => rh[1].expect.props \subseteq rh[1].sys.props)
====
