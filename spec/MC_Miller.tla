---- MODULE MC_Miller ----
EXTENDS Miller
\* grid denominator 2; hexagonal cell cannot have integer rows, so the cell set here serves the design checks only
CellsM == { <<<<6,0,0>>, <<0,6,0>>, <<0,0,6>>>>,
            <<<<4,0,0>>, <<-2,6,0>>, <<2,-2,10>>>>,
            <<<<0,6,2>>, <<-4,0,2>>, <<2,2,8>>>> }
ILo == -3
ILoT == -5
====
