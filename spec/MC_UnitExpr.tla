---- MODULE MC_UnitExpr ----
EXTENDS UnitExpr
====
