---- MODULE MC_Box ----
EXTENDS Box
C(a,b,c,o) == [v |-> <<a,b,c>>, o |-> o]
\* grid denominator 4 (driver divides by 4)
CellsQ == { C(<<8,0,0>>, <<0,4,0>>, <<0,0,16>>, <<0,0,0>>),         \* axis-aligned, power-of-two edges: faces decided
            C(<<8,0,0>>, <<0,12,0>>, <<0,0,16>>, <<0,0,0>>),        \* orthorhombic
            C(<<12,0,0>>, <<4,8,0>>, <<-4,8,16>>, <<4,-8,12>>),     \* triclinic LAMMPS-oriented, origin # 0
            C(<<0,8,0>>, <<-8,4,4>>, <<4,0,12>>, <<-4,4,0>>),       \* right-handed, not LAMMPS-oriented
            C(<<4,8,4>>, <<-8,4,4>>, <<4,-4,12>>, <<0,4,-4>>) }     \* rigidly rotated-looking: all nine components non-zero
Origins == { <<0,0,0>>, <<4,-8,12>> }
PtsQ == { <<0,0,0>>, <<4,2,1>>, <<-1,3,5>>, <<1,2,3>> }
PtsT == { <<0,0,0>>, <<4,2,1>>, <<-1,3,5>>, <<2,4,0>>, <<1,2,3>> }
====
