---- MODULE Unit_Trace ----
EXTENDS UnitExpr, IOUtils
Tr == ndJsonDeserialize(IOEnv.TRACE_FILE)
VARIABLE l
TInit == l = 1 /\ ucase = 0 /\ uphase = 0 /\ ucfg = 0 /\ uh = 0
TNext == l <= Len(Tr) /\ l' = l + 1 /\ UNCHANGED uvars
Check == l <= Len(Tr) =>
           LET w == VerdictUnit(Tr[l]) IN (w = "ok" \/ PrintT("@@BAD " \o ToJson([l |-> l, clause |-> w])))
Done == (l = Len(Tr) + 1) => PrintT("@@DONE " \o ToString(Len(Tr)))
====
