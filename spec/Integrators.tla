---- MODULE Integrators ----
(***************************************************************************)
(* C20 -- one integrator step on y' = A y, the central-difference          *)
(* gradient of polynomials, and the end state of string relaxation.        *)
(*                                                                         *)
(* Exact rational arithmetic (Arith!Rat).  The specification of a step is  *)
(* the Taylor polynomial of exp(hA) applied to y (degree 1: Euler, degree  *)
(* 4: Runge-Kutta).  TLC additionally checks, on the whole domain, the     *)
(* design identity "textbook four-stage form = degree-4 Taylor polynomial" *)
(* and, as a negative configuration that MUST fail, the stage form with    *)
(* the stage points taken BACKWARDS (y - k1/2, y - k2/2, y - k3).          *)
(***************************************************************************)
EXTENDS Arith, Json

CONSTANTS Dims, AEnt, YEnt, Ks,      \* dimensions, matrix / vector entries, step exponents (h = 2^-k)
          StageSign,                 \* +1 textbook, -1 negative model
          IMode,                     \* "ode" | "grad"
          Polys, Pts                 \* polynomials (sets of monomials) and evaluation points for the gradient cases

VARIABLES icase, iphase, imat       \* imat: the matrix (chosen in the initial state so that TLC's workers share the enumeration)
ivars == <<icase, iphase, imat>>

\* ---- rational vectors / integer matrices ---------------------------------------------------------------------
RV(v) == [i \in DOMAIN v |-> RInt(v[i])]
RMatVec(A, v) == [i \in DOMAIN v |-> LET RECURSIVE S(_) S(j) == IF j = 0 THEN RInt(0) ELSE RAdd(S(j-1), RMul(RInt(A[i][j]), v[j])) IN S(Len(v))]
RVAdd(a, b) == [i \in DOMAIN a |-> RAdd(a[i], b[i])]
RVScale(q, a) == [i \in DOMAIN a |-> RMul(q, a[i])]
RECURSIVE Pow2(_)
Pow2(k) == IF k = 0 THEN 1 ELSE 2 * Pow2(k-1)
H(k) == Rat(1, Pow2(k))
\* Taylor polynomial of exp(hA) y of degree n
RECURSIVE Fact(_)
Fact(n) == IF n = 0 THEN 1 ELSE n * Fact(n-1)
RECURSIVE AhPow(_,_,_,_)
AhPow(A, y, k, j) == IF j = 0 THEN RV(y) ELSE RVScale(H(k), RMatVec(A, AhPow(A, y, k, j-1)))     \* (hA)^j y
Taylor(A, y, k, n) == LET RECURSIVE T(_) T(j) == IF j = 0 THEN AhPow(A, y, k, 0) ELSE RVAdd(T(j-1), RVScale(Rat(1, Fact(j)), AhPow(A, y, k, j))) IN T(n)
\* four-stage form; sg = +1 is the textbook method
Rate(A, v) == RMatVec(A, v)
Staged(A, y, k, sg) ==
    LET y0 == RV(y)  h == H(k)
        k1 == RVScale(h, Rate(A, y0))
        k2 == RVScale(h, Rate(A, RVAdd(y0, RVScale(Rat(sg, 2), k1))))
        k3 == RVScale(h, Rate(A, RVAdd(y0, RVScale(Rat(sg, 2), k2))))
        k4 == RVScale(h, Rate(A, RVAdd(y0, RVScale(Rat(sg, 1), k3))))
    IN RVAdd(RVAdd(y0, RVScale(Rat(1,6), k1)), RVAdd(RVScale(Rat(1,3), k2), RVAdd(RVScale(Rat(1,3), k3), RVScale(Rat(1,6), k4))))

Mats(d) == [1..d -> [1..d -> AEnt]]
Vecs(d) == [1..d -> YEnt]
IInit == iphase = 0 /\ icase = <<>> /\ (IF IMode = "ode" THEN \E d \in Dims : imat \in Mats(d) ELSE imat = <<>>)
GenOde == IMode = "ode" /\ LET A == imat  d == Len(imat) IN \E y \in Vecs(d) : \E k \in Ks :
            icase' = [kind |-> "ode", d |-> d, a |-> A, y |-> y, k |-> k,
                      euler |-> Taylor(A, y, k, 1), rk |-> Taylor(A, y, k, 4),
                      staged_ok |-> Staged(A, y, k, StageSign) = Taylor(A, y, k, 4)]
\* polynomial = set of monomials [c, e] with e a triple of exponents (total degree <= 3); x an integer point
RECURSIVE IPow(_,_)
IPow(b, n) == IF n = 0 THEN 1 ELSE b * IPow(b, n-1)
Mono(m, x) == m.c * IPow(x[1], m.e[1]) * IPow(x[2], m.e[2]) * IPow(x[3], m.e[3])
DMono(m, x, i) == IF m.e[i] = 0 THEN 0 ELSE
                  m.e[i] * m.c * IPow(x[1], m.e[1] - (IF i = 1 THEN 1 ELSE 0)) * IPow(x[2], m.e[2] - (IF i = 2 THEN 1 ELSE 0)) * IPow(x[3], m.e[3] - (IF i = 3 THEN 1 ELSE 0))
RECURSIVE SumSet(_,_,_)
SumSet(S, x, i) == IF S = {} THEN 0 ELSE LET m == CHOOSE mm \in S : TRUE IN DMono(m, x, i) + SumSet(S \ {m}, x, i)
Cubic(S, i) == LET T == {m \in S : m.e[i] = 3} IN IF T = {} THEN 0 ELSE (CHOOSE m \in T : TRUE).c
\* central difference with step h = 2^-k : exactly  grad_i + h^2 * (coefficient of x_i^3)   (second order, exact for quadratics)
GenGrad == IMode = "grad" /\ \E p \in Polys : \E x \in Pts : \E k \in Ks :
            icase' = [kind |-> "grad", poly |-> p, x |-> x, k |-> k,
                      grad |-> [i \in 1..3 |-> SumSet(p, x, i)],
                      cd |-> [i \in 1..3 |-> Rat(SumSet(p, x, i) * Pow2(2*k) + Cubic(p, i), Pow2(2*k))]]
INext == iphase = 0 /\ iphase' = 1 /\ UNCHANGED imat /\ (GenOde \/ GenGrad)
StagedIsTaylor == (iphase = 1 /\ icase.kind = "ode") => icase.staged_ok
IEmit == iphase = 1 => PrintT("@@CASE " \o ToJson(icase))

\* ---- relaxation end state (C->S): fixed-point observations, S = r.s ---------------------------------------------
\* surface E = (x^2-1)^2 + c y^2 : minima (+-1, 0), saddle (0,0), barrier 1
VerdictRelax(r) ==
    LET tol == r.tol IN
    IF Abs(Abs(r.end0[1]) - r.s) > tol \/ Abs(r.end0[2]) > tol \/ Abs(Abs(r.end1[1]) - r.s) > tol \/ Abs(r.end1[2]) > tol
         THEN "string_end_not_in_a_minimum"
    ELSE IF Sign(r.end0[1]) = Sign(r.end1[1]) THEN "both_ends_in_the_same_basin"
    ELSE IF \E j \in 2..Len(r.e0hist) : r.e0hist[j] > r.e0hist[j-1] + 2 \/ r.e1hist[j] > r.e1hist[j-1] + 2 THEN "end_image_energy_increased"
    ELSE IF r.climb /\ (Abs(r.top[1]) > tol \/ Abs(r.top[2]) > tol) THEN "highest_image_not_at_the_saddle"
    ELSE IF r.climb /\ Abs(r.etop - r.s) > tol THEN "energy_at_the_top_is_not_the_barrier"
    ELSE IF r.climb /\ r.gtop > tol THEN "gradient_does_not_vanish_at_the_top"
    ELSE IF \E j \in 2..Len(r.arc) : r.arc[j] <= r.arc[j-1] THEN "images_not_ordered_along_the_string"
    ELSE "ok"
\* one recorded integrator step on y' = A y: r.euler numerators over 2^k, r.rk numerators over 24 * 16^k
VerdictStep(r) ==
    LET d == Len(r.y)  te == Taylor(r.a, r.y, r.k, 1)  tr == Taylor(r.a, r.y, r.k, 4) IN
    IF ~r.ongrid THEN "step_result_off_the_exact_grid"
    ELSE IF \E i \in 1..d : ~REq(te[i], <<r.euler[i], Pow2(r.k)>>) THEN "euler_step_is_not_the_degree_1_taylor_polynomial"
    ELSE IF \E i \in 1..d : ~REq(tr[i], <<r.rk[i], 24 * Pow2(4 * r.k)>>) THEN "runge_kutta_step_is_not_the_degree_4_taylor_polynomial"
    ELSE "ok"
VerdictInteg(r) == CASE r.ev = "relax" -> VerdictRelax(r) [] r.ev = "step" -> VerdictStep(r) [] OTHER -> "unknown_event"
====
