---- MODULE Lattice ----
(***************************************************************************)
(* A simulation cell is [v |-> <<a,b,c>> (integer rows), o |-> origin].    *)
(* Every coordinate is a numerator over the grid denominator chosen by     *)
(* the driver.  Relative coordinates are never divided out: RelNum/Det.    *)
(***************************************************************************)
EXTENDS Arith
RelNum(cell,p)     == VecMat(Sub(p, cell.o), Adj3(cell.v))           \* relative coordinate = RelNum / Det3
InsideIncl(cell,p) == LET d == Det3(cell.v) r == RelNum(cell,p) s == Sign(d)
                      IN \A i \in 1..3 : 0 <= s*r[i] /\ s*r[i] <= s*d
InsideExcl(cell,p) == LET d == Det3(cell.v) r == RelNum(cell,p) s == Sign(d)
                      IN \A i \in 1..3 : 0 <  s*r[i] /\ s*r[i] <  s*d
InsideHalfOpen(cell,p) == LET d == Det3(cell.v) r == RelNum(cell,p) s == Sign(d)
                      IN \A i \in 1..3 : 0 <= s*r[i] /\ s*r[i] <  s*d
Rng(per,R)         == IF per THEN -R..R ELSE {0}
Shifts(pbc,R)      == { <<x,y,z>> : x \in Rng(pbc[1],R), y \in Rng(pbc[2],R), z \in Rng(pbc[3],R) }
Images(cell,pbc,d,R) == { Add(d, VecMat(n, cell.v)) : n \in Shifts(pbc,R) }
Min27(cell,pbc,d)     == MinOf({ Norm2(c) : c \in Images(cell,pbc,d,1) })
TrueMin(cell,pbc,d,R) == MinOf({ Norm2(c) : c \in Images(cell,pbc,d,R) })
\* d2 - d1 is an integer combination of the periodic cell rows only
IsLatticeShift(cell,pbc,e) ==
    LET dt == Det3(cell.v)  r == VecMat(e, Adj3(cell.v))
    IN \A i \in 1..3 : r[i] % Abs(dt) = 0 /\ (~pbc[i] => r[i] = 0)
WrapFlag(cell,p,i) == FloorDiv(RelNum(cell,p)[i], Det3(cell.v))
Gram(M)     == << Norm2(M[1]), Norm2(M[2]), Norm2(M[3]), Dot(M[2],M[3]), Dot(M[1],M[3]), Dot(M[1],M[2]) >>
IsLammps(M) == M[1][2] = 0 /\ M[1][3] = 0 /\ M[2][3] = 0 /\ M[1][1] > 0 /\ M[2][2] > 0 /\ M[3][3] > 0
IsOrtho(M)  == Dot(M[1],M[2]) = 0 /\ Dot(M[1],M[3]) = 0 /\ Dot(M[2],M[3]) = 0
\* squared perpendicular width along direction i, as the rational Det^2 / |a_j x a_k|^2
WidthNum(M)   == Det3(M) * Det3(M)
WidthDen(M,i) == LET j == (i % 3) + 1  k == ((i+1) % 3) + 1 IN Norm2(Cross(M[j], M[k]))
====
