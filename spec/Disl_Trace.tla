---- MODULE Disl_Trace ----
EXTENDS DislConfig, IOUtils
Tr == ndJsonDeserialize(IOEnv.TRACE_FILE)
VARIABLE l
TInit == l = 1 /\ ddummy = 0
TNext == l <= Len(Tr) /\ l' = l + 1 /\ UNCHANGED dvars
Check == l <= Len(Tr) =>
           LET w == VerdictDisl(Tr[l]) IN (w = "ok" \/ PrintT("@@BAD " \o ToJson([l |-> l, clause |-> w])))
Done == (l = Len(Tr) + 1) => PrintT("@@DONE " \o ToString(Len(Tr)))
====
