---- MODULE MC_DataModel ----
EXTENDS DataModel
====
