---- MODULE Volterra_Trace ----
EXTENDS Volterra, IOUtils
Tr == ndJsonDeserialize(IOEnv.TRACE_FILE)
VARIABLE l
TInit == l = 1 /\ vdummy = 0
TNext == l <= Len(Tr) /\ l' = l + 1 /\ UNCHANGED vvars
Check == l <= Len(Tr) =>
           LET w == VerdictVolterra(Tr[l]) IN (w = "ok" \/ PrintT("@@BAD " \o ToJson([l |-> l, clause |-> w])))
Done == (l = Len(Tr) + 1) => PrintT("@@DONE " \o ToString(Len(Tr)))
====
