---- MODULE DislConfig ----
(***************************************************************************)
(* C13 -- generated dislocation configurations (monopole and periodic      *)
(* array).  Discrete facts are decided exactly (counts, orders, flags,     *)
(* lattice congruence of the reference system, deletion count from integer *)
(* determinants); compositional facts as laws between fixed-point          *)
(* observations (displacement = elastic solution at the reference          *)
(* position modulo the line period, boundary region membership,            *)
(* disregistry accumulating to one Burgers vector up to the stated tail).  *)
(***************************************************************************)
EXTENDS Lattice, Json

VARIABLES ddummy
dvars == <<ddummy>>
CloseI(a, b, sl) == Abs(a - b) <= sl

\* reference system = rotated, shifted perfect crystal: every atom congruent to a basis atom (lattice numerators over dd)
Congr(x, b, dd) == x[4] = b[4] /\ \A i \in 1..3 : (x[i] - b[i]) % dd = 0
RefIsCrystal(atoms, basis, dd, copies) ==
    LET n == Len(atoms)  nb == Len(basis) IN
    IF n # copies * nb THEN "reference_atom_count_is_not_replication_times_basis"
    ELSE IF \E a \in 1..n : ~\E b \in 1..nb : Congr(atoms[a], basis[b], dd) THEN "reference_atom_is_not_an_atom_of_the_perfect_crystal"
    ELSE IF \E b \in 1..nb : Cardinality({a \in 1..n : Congr(atoms[a], basis[b], dd)}) # copies THEN "reference_crystal_basis_not_represented_equally"
    ELSE "ok"
\* boundary: re-typed exactly outside the region (atoms within r.band of the surface are exempt); r.dist = signed distance to the region surface, > 0 outside
VerdictBoundary(r) ==
    LET n == Len(r.dist) IN
    IF \E a \in 1..n : Abs(r.dist[a]) > r.band /\ (r.retyped[a] # (r.dist[a] > 0)) THEN "boundary_atoms_are_not_those_outside_the_region"
    ELSE IF \E a \in 1..n : ~r.retyped[a] /\ r.dtype[a] # r.btype[a] THEN "atom_type_changed_inside_the_region"
    ELSE IF \E a \in 1..n : r.retyped[a] /\ r.dtype[a] # r.btype[a] + r.ntypes THEN "boundary_atom_type_is_not_shifted_by_the_number_of_types"
    ELSE "ok"
VerdictMonopole(r) ==
    LET n == Len(r.res)  ref == RefIsCrystal(r.ref, r.basis, r.dd, r.copies) IN
    IF ~r.ongrid THEN "reference_atom_off_the_lattice_grid"
    ELSE IF ref # "ok" THEN ref
    ELSE IF r.ndisl # r.nbase THEN "monopole_does_not_keep_every_reference_atom"
    ELSE IF r.pbc # [i \in 1..3 |-> i = r.line] THEN "monopole_not_periodic_along_the_line_only"
    \* displacement law: residual = disl - base - u(base - center); zero across the line, a whole number of periods along it
    ELSE IF \E a \in 1..n : \E i \in 1..3 : i # r.line /\ ~CloseI(r.res[a][i], 0, r.tol) THEN "atom_not_displaced_by_the_elastic_solution"
    ELSE IF \E a \in 1..n : ~CloseI(r.res[a][r.line] - r.period * ((2 * r.res[a][r.line] + r.period) \div (2 * r.period)), 0, r.tol)
         THEN "atom_not_displaced_by_the_elastic_solution_along_the_line"
    ELSE VerdictBoundary(r)
\* periodic array: rows4 / newrows4 = 4 x cell rows in lattice coordinates before / after (integers)
VerdictArray(r) ==
    LET dOld == Abs(Det3(r.rows4))  dNew == Abs(Det3(r.newrows4))  n == Len(r.oldid) IN
    IF ~r.ongrid THEN "array_reference_atom_off_the_lattice_grid_for_the_requested_shift"
    ELSE IF \E a \in 1..Len(r.ref) : ~\E b \in 1..Len(r.basis) : Congr(r.ref[a], r.basis[b], r.dd) THEN "array_reference_atom_is_not_an_atom_of_the_shifted_perfect_crystal"
    ELSE IF (r.nfull - n) * dOld # r.nfull * (dOld - dNew) THEN "number_of_removed_atoms_is_not_implied_by_the_edge_component"
    ELSE IF r.pbc # [i \in 1..3 |-> i # r.cut] THEN "array_not_periodic_in_the_two_slip_plane_directions_only"
    ELSE IF \E a \in 1..n : r.oldid[a] < 0 \/ r.oldid[a] >= r.nfull THEN "old_id_out_of_range"
    ELSE IF \E a \in 1..n : \E b \in (a+1)..n : r.oldid[a] = r.oldid[b] THEN "two_atoms_map_to_the_same_reference_atom"
    ELSE IF \E a \in 1..n : r.basetype[a] # r.fulltype[r.oldid[a] + 1] THEN "returned_reference_atom_is_not_the_mapped_one"
    ELSE IF r.mindist < r.cutoff THEN "overlapping_atoms_across_the_periodic_directions"
    ELSE "ok"
\* disregistry: accumulated difference along the Burgers direction, in units of |b| * S
VerdictDisreg(r) ==
    IF ~CloseI(r.total, r.s, r.tail) THEN "disregistry_does_not_accumulate_to_one_burgers_vector"
    ELSE IF r.perp > r.tail THEN "disregistry_has_a_component_that_is_not_the_burgers_vector"
    \* periodic arrays: the profile runs from (nearly) nothing to (nearly) one Burgers vector, not between two shifted values
    ELSE IF "lo" \in DOMAIN r /\ (~CloseI(r.lo, 0, r.tail) \/ ~CloseI(r.hi, r.s, r.tail)) THEN "disregistry_profile_does_not_run_from_zero_to_one_burgers_vector"
    ELSE "ok"
VerdictDisl(r) == CASE r.ev = "monopole" -> VerdictMonopole(r) [] r.ev = "array" -> VerdictArray(r) [] r.ev = "disreg" -> VerdictDisreg(r) [] r.ev = "boundary" -> VerdictBoundary(r) [] OTHER -> "unknown_event"
====
