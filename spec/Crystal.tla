---- MODULE Crystal ----
(***************************************************************************)
(* C04 / C05 -- supercells, re-oriented cells, centring conversions,       *)
(* wrapping and normalising, stated in LATTICE COORDINATES of the original *)
(* unit cell: an atom is <<x1,x2,x3,type,prop>> with x numerators over D.  *)
(* The declarative meaning of "the same infinite crystal": every result    *)
(* atom is congruent to a basis atom modulo D (same type and properties),  *)
(* every basis atom is represented equally often, no two result atoms are  *)
(* congruent modulo the NEW cell, all lie inside it.                       *)
(* TLC generates the multiplier tuples / integer matrices (cases) and      *)
(* decides every recorded result.                                          *)
(***************************************************************************)
EXTENDS Lattice, Json

CONSTANTS WEntries,    \* entries of the integer vector sets, e.g. -1..1
          MaxDet,      \* bound on |Det|
          Mults,       \* multiplier values for supersize cases: ints (non-zero) or pairs <<lo,hi>>
          CMode        \* "rotate" | "supersize"

VARIABLES ccase, cphase
cvars == <<ccase, cphase>>
CInit == cphase = 0 /\ ccase = <<>>
GenRotate == CMode = "rotate" /\ \E a \in WEntries \X WEntries \X WEntries : \E b \in WEntries \X WEntries \X WEntries :
             \E c \in WEntries \X WEntries \X WEntries :
                LET W == <<a,b,c>> IN Abs(Det3(W)) <= MaxDet /\ ccase' = [kind |-> "rotate", w |-> W, det |-> Det3(W)]
GenSuper == CMode = "supersize" /\ \E ma \in Mults : \E mb \in Mults : \E mc \in Mults :
                ccase' = [kind |-> "supersize", m |-> <<ma, mb, mc>>]
CNext == cphase = 0 /\ cphase' = 1 /\ (GenRotate \/ GenSuper)
CEmit == cphase = 1 => PrintT("@@CASE " \o ToJson(ccase))

\* ---- the same infinite crystal ------------------------------------------------------------------
X(a) == <<a[1], a[2], a[3]>>
Congruent(a, b, dd) == a[4] = b[4] /\ a[5] = b[5] /\ \A i \in 1..3 : (a[i] - b[i]) % dd = 0
SameCrystal(atoms, basis, dd, copies) ==
    LET n == Len(atoms)  nb == Len(basis) IN
    IF n # copies * nb THEN "atom_count_is_not_replication_count_times_basis"
    ELSE IF \E a \in 1..n : ~\E b \in 1..nb : Congruent(atoms[a], basis[b], dd) THEN "atom_is_not_an_atom_of_the_original_crystal"
    ELSE IF \E b \in 1..nb : Cardinality({a \in 1..n : Congruent(atoms[a], basis[b], dd)}) # copies THEN "original_atoms_not_represented_equally"
    ELSE "ok"
\* new cell given by integer rows W (in original lattice coordinates) and origin oo (numerators over dd)
InNewCell(x, W, oo, dd) ==
    LET dt == Det3(W)  s == Sign(dt)  r == VecMat(Sub(x, oo), Adj3(W)) IN \A i \in 1..3 : 0 <= s*r[i] /\ s*r[i] <= s*dt*dd     \* faces included: a coordinate of 1 - 1e-16 projects onto the face;
                                                                     \* coincidences across faces are caught by CongruentNew
CongruentNew(x, y, W, dd) ==
    LET dt == Abs(Det3(W))  r == VecMat(Sub(x, y), Adj3(W)) IN \A i \in 1..3 : r[i] % (dt*dd) = 0

\* supersize: r.rng = <<lo,hi>> per axis (images lo..hi-1)
VerdictSupersize(r) ==
    LET copies == (r.rng[1][2] - r.rng[1][1]) * (r.rng[2][2] - r.rng[2][1]) * (r.rng[3][2] - r.rng[3][1])
        W == <<<<r.rng[1][2] - r.rng[1][1], 0, 0>>, <<0, r.rng[2][2] - r.rng[2][1], 0>>, <<0, 0, r.rng[3][2] - r.rng[3][1]>>>>
        oo == <<r.dd * r.rng[1][1], r.dd * r.rng[2][1], r.dd * r.rng[3][1]>>
        sc == SameCrystal(r.atoms, r.basis, r.dd, copies)  n == Len(r.atoms) IN
    IF ~r.ongrid THEN "atom_off_the_lattice_grid"
    ELSE IF sc # "ok" THEN sc
    ELSE IF r.cell # W THEN "new_cell_is_not_the_multiplied_cell"
    ELSE IF r.org # oo THEN "new_origin_wrong"
    ELSE IF \E a \in 1..n : ~InNewCell(X(r.atoms[a]), W, oo, r.dd) THEN "atom_outside_the_new_cell"
    ELSE IF \E a \in 1..n : \E b \in (a+1)..n : X(r.atoms[a]) = X(r.atoms[b]) THEN "two_atoms_coincide"
    ELSE "ok"
\* rotate: r.w integer rows; r.cell = new cell rows mapped back through the returned rotation, in lattice coords
VerdictRotate(r) ==
    LET n == Len(r.atoms)  sc == SameCrystal(r.atoms, r.basis, r.dd, Abs(Det3(r.w))) IN
    IF ~r.ongrid THEN "atom_off_the_lattice_grid"
    ELSE IF ~r.proper THEN "returned_transform_is_not_a_proper_rotation"
    ELSE IF ~r.lammps THEN "result_cell_not_lammps_compatible"
    ELSE IF r.cell # r.w /\ r.cell # <<r.w[1], r.w[2], Neg(r.w[3])>> THEN "new_cell_is_not_spanned_by_the_requested_vectors"
    ELSE IF (Det3(r.w) > 0) # (r.cell = r.w) THEN "handedness_handling_wrong"
    ELSE IF sc # "ok" THEN sc
    ELSE IF \E a \in 1..n : ~InNewCell(X(r.atoms[a]), r.cell, r.org, r.dd) THEN "atom_outside_the_new_cell"
    ELSE IF \E a \in 1..n : \E b \in (a+1)..n : CongruentNew(X(r.atoms[a]), X(r.atoms[b]), r.cell, r.dd) THEN "two_atoms_coincide"
    ELSE IF r.vol # Abs(Det3(r.w)) THEN "volume_not_scaled_by_the_determinant"
    ELSE "ok"
\* centring round trip: prim = conventional_to_primitive(conv); back = primitive_to_conventional(prim)
VerdictCentring(r) ==
    LET scp == SameCrystal(r.patoms, r.basis, r.dd, 1)  scb == SameCrystal(r.batoms, r.basis, r.dd, 1) IN
    IF ~r.ongrid THEN "atom_off_the_lattice_grid"
    ELSE IF Len(r.patoms) * r.npts # Len(r.basis) THEN "primitive_cell_atom_count_wrong"
    ELSE IF \E a \in 1..Len(r.patoms) : ~\E b \in 1..Len(r.basis) : Congruent(r.patoms[a], r.basis[b], r.dd) THEN "primitive_atom_not_in_the_crystal"
    ELSE IF \E a \in 1..Len(r.patoms) : \E b \in (a+1)..Len(r.patoms) : CongruentNew(Scale(6, X(r.patoms[a])), Scale(6, X(r.patoms[b])), r.pcell6, r.dd) THEN "two_primitive_atoms_coincide"
    ELSE IF Abs(Det3(r.pcell6)) * r.npts # 216 THEN "primitive_cell_volume_wrong"
    ELSE IF ~r.pproper THEN "returned_transform_is_not_a_proper_rotation"
    ELSE IF ~r.plammps THEN "converted_cell_not_lammps_compatible"
    ELSE IF \E a \in 1..Len(r.patoms) : ~InNewCell(Scale(6, X(r.patoms[a])), r.pcell6, r.porg6, r.dd) THEN "primitive_atom_outside_its_cell"
    ELSE IF ~r.binside THEN "round_trip_atom_outside_its_cell"
    ELSE IF ~r.undone THEN "conversions_do_not_undo_one_another"
    ELSE IF scb # "ok" THEN "round_trip_" \o scb
    ELSE IF r.bgram # r.gram THEN "round_trip_cell_differs"
    ELSE "ok"

\* ---- wrap (C05) : Cartesian numerators over the grid -------------------------------------------------
VerdictWrap(r) ==
    LET c == [v |-> r.v, o |-> r.o]  n == Len(r.before)  dt == Det3(r.v) IN
    IF ~r.ongrid THEN "wrapped_position_off_grid"
    ELSE IF \E a \in 1..n : \E i \in 1..3 : ~r.pbc[i] /\ r.flags[a][i] # 0 THEN "atom_moved_along_a_non_periodic_direction"
    ELSE IF \E a \in 1..n : \E i \in 1..3 : r.pbc[i] /\ ~(LET q == Sign(dt) * RelNum(c, r.after[a])[i] IN 0 <= q /\ q <= Abs(dt))
         THEN "atom_outside_the_cell_along_a_periodic_direction"     \* exact; a face atom may legitimately end on either face
    ELSE IF \E a \in 1..n : r.before[a] # Add(r.after[a], VecMat(r.flags[a], r.v)) THEN "flags_do_not_reconstruct_the_original_position"
    ELSE IF \E a \in 1..n : \E i \in 1..3 : r.rel[a][i] < 0 \/ r.rel[a][i] > r.s THEN "atom_outside_the_cell_after_wrap"
    ELSE IF \E i \in 1..3 : r.pbc[i] /\ (r.lo[i] # 0 \/ r.hi[i] # r.s) THEN "cell_changed_along_a_periodic_direction"
    ELSE IF \E i \in 1..3 : ~r.pbc[i] /\ (r.lo[i] > 0 \/ r.hi[i] < r.s) THEN "cell_shrunk_along_a_non_periodic_direction"
    ELSE IF ~r.parallel THEN "cell_vectors_changed_direction"
    ELSE "ok"
\* normalize (C05): r.v,r.o old cell; r.backv = new cell rows mapped back through T; r.back = new positions mapped back
VerdictNormalize(r) ==
    LET c == [v |-> r.v, o |-> r.o]  n == Len(r.pos)  lh == Det3(r.v) < 0
        want == IF lh THEN <<r.v[1], r.v[2], Neg(r.v[3])>> ELSE r.v IN
    IF ~r.ongrid THEN "normalized_system_off_grid_after_mapping_back"
    ELSE IF ~r.proper THEN "returned_transform_is_not_a_proper_rotation"
    ELSE IF ~r.lammps THEN "normalized_cell_not_lammps_compatible"
    ELSE IF r.backv # want THEN "normalized_cell_is_not_the_rotated_cell"
    ELSE IF r.gram2 # Gram(want) THEN "lengths_or_angles_changed"
    ELSE IF \E a \in 1..n : ~IsLatticeShift(c, <<TRUE,TRUE,TRUE>>, Sub(Sub(r.back[a], r.pos[a]), Sub(r.back[1], r.pos[1]))) THEN "atom_moved_by_something_other_than_a_lattice_vector"
    ELSE IF \E a \in 1..n : \E i \in 1..3 : r.rel[a][i] < 0 \/ r.rel[a][i] > r.s THEN "atom_outside_the_normalized_cell"
    ELSE IF ~r.inputsame THEN "input_system_modified"
    ELSE "ok"
VerdictCrystal(r) ==
    CASE r.ev = "supersize" -> VerdictSupersize(r)
      [] r.ev = "rotate" -> VerdictRotate(r)
      [] r.ev = "centring" -> VerdictCentring(r)
      [] r.ev = "wrap" -> VerdictWrap(r)
      [] r.ev = "normalize" -> VerdictNormalize(r)
      [] OTHER -> "unknown_event"
====
