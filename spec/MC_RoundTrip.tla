---- MODULE MC_RoundTrip ----
EXTENDS RoundTrip
====
