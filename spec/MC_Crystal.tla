---- MODULE MC_Crystal ----
EXTENDS Crystal
E1 == -1..1
E2 == -2..2
M(f, lo, hi) == [f |-> f, lo |-> lo, hi |-> hi]
MultsQ == {M("int",0,1), M("int",0,2), M("int",0,3), M("int",-1,0), M("int",-2,0), M("pair",-1,1), M("pair",-2,1), M("pair",0,2), M("pair",-1,0)}
====
