---- MODULE UnitExpr ----
(***************************************************************************)
(* C09 -- unit expressions and working units.                              *)
(*                                                                         *)
(* A unit name is an exact SI quantity  n/d * 10^x  with a dimension       *)
(* vector <<L,M,T,Q>> (2019 SI: the listed units are exact).  An           *)
(* expression is an AST over names, numeric literals, * / ^ and            *)
(* parentheses; Eval is ORDINARY precedence by construction (the AST), Str *)
(* prints the AST with the fewest parentheses that keep its meaning, tight *)
(* or with spaces.  TLC enumerates all ASTs up to a depth bound and emits  *)
(* (string, exact value, dimension): the parser must agree.                *)
(*                                                                         *)
(* Working units: a configuration fixes up to four of length, mass, time,  *)
(* energy, charge by name (not all of length/mass/time/energy at once).    *)
(* The state machine is the module-global unit table: histories of resets  *)
(* interleaved with conversions.                                           *)
(***************************************************************************)
EXTENDS Integers, Sequences, FiniteSets, TLC, Json

CONSTANTS UDepth,     \* AST depth for the parser cases
          UMode,      \* "parse" | "history"
          HDepth      \* number of resets in a history

VARIABLES ucase, uphase, ucfg, uh
uvars == <<ucase, uphase, ucfg, uh>>

Abs(x) == IF x < 0 THEN -x ELSE x
RECURSIVE GcdN(_,_)
GcdN(a,b) == IF b = 0 THEN a ELSE GcdN(b, a % b)
Norm(n, d) == LET g == GcdN(Abs(n), Abs(d)) IN <<n \div g, d \div g>>

\* ---- exact SI table ---------------------------------------------------------------------------------------
U(n, d, x, dim) == [n |-> n, d |-> d, x |-> x, dim |-> dim]
DimL == <<1,0,0,0>>  DimM == <<0,1,0,0>>  DimT == <<0,0,1,0>>  DimQ == <<0,0,0,1>>
DimE == <<2,1,-2,0>>  DimP == <<-1,1,-2,0>>  DimF == <<1,1,-2,0>>  Dim0 == <<0,0,0,0>>
Units == [ m |-> U(1,1,0,DimL), angstrom |-> U(1,1,-10,DimL), nm |-> U(1,1,-9,DimL), cm |-> U(1,1,-2,DimL), km |-> U(1,1,3,DimL),
           kg |-> U(1,1,0,DimM), g |-> U(1,1,-3,DimM), mg |-> U(1,1,-6,DimM),
           s |-> U(1,1,0,DimT), ps |-> U(1,1,-12,DimT), fs |-> U(1,1,-15,DimT), ms |-> U(1,1,-3,DimT),
           C |-> U(1,1,0,DimQ), mC |-> U(1,1,-3,DimQ), e |-> U(1602176634,1,-28,DimQ),
           J |-> U(1,1,0,DimE), kJ |-> U(1,1,3,DimE), eV |-> U(1602176634,1,-28,DimE),
           Pa |-> U(1,1,0,DimP), GPa |-> U(1,1,9,DimP), bar |-> U(1,1,5,DimP), N |-> U(1,1,0,DimF) ]

\* ---- ASTs --------------------------------------------------------------------------------------------------
Names == {"angstrom", "ps", "g"}
Nums == { [s |-> "2", v |-> <<2,1>>], [s |-> "0.5", v |-> <<1,2>>], [s |-> "10", v |-> <<10,1>>] }
Leaf == {[t |-> "name", s |-> nm] : nm \in Names} \cup {[t |-> "num", s |-> q.s, v |-> q.v] : q \in Nums}
Pows == {-1, 2}
RECURSIVE Asts(_)
Asts(d) == IF d = 0 THEN Leaf
           ELSE LET P == Asts(d-1) IN
                P \cup {[t |-> "mul", a |-> a, b |-> b] : a \in P, b \in P}
                  \cup {[t |-> "div", a |-> a, b |-> b] : a \in P, b \in P}
                  \cup {[t |-> "pow", a |-> a, n |-> n] : a \in P, n \in Pows}
RECURSIVE IPow(_,_)
IPow(b, k) == IF k = 0 THEN 1 ELSE b * IPow(b, k-1)
VMul(p, q) == LET r == Norm(p.n * q.n, p.d * q.d) IN
              [n |-> r[1], d |-> r[2], x |-> p.x + q.x, dim |-> [i \in 1..4 |-> p.dim[i] + q.dim[i]]]
VInv(p) == [n |-> p.d, d |-> p.n, x |-> -p.x, dim |-> [i \in 1..4 |-> -p.dim[i]]]
VPow(p, k) == IF k < 0 THEN VInv([n |-> IPow(p.n, -k), d |-> IPow(p.d, -k), x |-> p.x * (-k), dim |-> [i \in 1..4 |-> p.dim[i] * (-k)]])
              ELSE [n |-> IPow(p.n, k), d |-> IPow(p.d, k), x |-> p.x * k, dim |-> [i \in 1..4 |-> p.dim[i] * k]]
RECURSIVE Eval(_)
Eval(e) == CASE e.t = "name" -> Units[e.s]
             [] e.t = "num"  -> U(e.v[1], e.v[2], 0, Dim0)
             [] e.t = "mul"  -> VMul(Eval(e.a), Eval(e.b))
             [] e.t = "div"  -> VMul(Eval(e.a), VInv(Eval(e.b)))
             [] e.t = "pow"  -> VPow(Eval(e.a), e.n)
\* printing with the fewest parentheses that preserve the AST under ordinary precedence, left-to-right * and /
Atomic(e) == e.t \in {"name", "num"}
RECURSIVE Str(_,_)
Par(e, sp) == (IF sp THEN "( " ELSE "(") \o Str(e, sp) \o (IF sp THEN " )" ELSE ")")
Str(e, sp) ==
    CASE e.t \in {"name", "num"} -> e.s
      [] e.t = "mul" -> (IF e.a.t = "pow" \/ Atomic(e.a) \/ e.a.t \in {"mul", "div"} THEN Str(e.a, sp) ELSE Par(e.a, sp))
                        \o (IF sp THEN " * " ELSE "*") \o (IF Atomic(e.b) \/ e.b.t = "pow" THEN Str(e.b, sp) ELSE Par(e.b, sp))
      [] e.t = "div" -> (IF e.a.t = "pow" \/ Atomic(e.a) \/ e.a.t \in {"mul", "div"} THEN Str(e.a, sp) ELSE Par(e.a, sp))
                        \o (IF sp THEN " / " ELSE "/") \o (IF Atomic(e.b) \/ e.b.t = "pow" THEN Str(e.b, sp) ELSE Par(e.b, sp))
      [] e.t = "pow" -> (IF Atomic(e.a) THEN Str(e.a, sp) ELSE Par(e.a, sp)) \o "^" \o ToString(e.n)
\* ill-formed strings the parser must refuse
BadStrings == {"angstrom ps", "(angstrom*ps", "angstrom*ps)", "angstrom**ps", "2 (ps)", "((g)"}

\* ---- working-unit configurations -------------------------------------------------------------------------------
Pools == [ length |-> {"angstrom", "nm", "cm"}, mass |-> {"g", "mg"}, time |-> {"ps", "fs", "ms"},
           energy |-> {"eV", "kJ"}, charge |-> {"e", "mC"} ]
DimNames == {"length", "mass", "time", "energy", "charge"}
OkSel(S) == Cardinality(S) >= 1 /\ Cardinality(S) <= 4 /\ ~({"length", "mass", "time", "energy"} \subseteq S)
Opt(k) == Pools[k] \cup {"-"}
\* conversion pairs with exact ratios (value of 1 <from> expressed in <to>), all inside 32-bit arithmetic
Nm(x) == [t |-> "name", s |-> x]
Mu(a, b) == [t |-> "mul", a |-> a, b |-> b]
Dv(a, b) == [t |-> "div", a |-> a, b |-> b]
Pw(a, k) == [t |-> "pow", a |-> a, n |-> k]
ConvPairs == { <<Nm("nm"), Nm("angstrom")>>, <<Nm("ps"), Nm("fs")>>, <<Nm("g"), Nm("kg")>>, <<Nm("kJ"), Nm("J")>>, <<Nm("GPa"), Nm("bar")>>,
               <<Nm("eV"), Nm("J")>>, <<Nm("e"), Nm("C")>>, <<Nm("mC"), Nm("e")>>,
               <<Nm("N"), Dv(Mu(Nm("kg"), Nm("m")), Pw(Nm("s"), 2))>>, <<Nm("J"), Mu(Nm("N"), Nm("m"))>>,
               <<Nm("GPa"), Dv(Nm("kJ"), Pw(Nm("cm"), 3))>>, <<Dv(Nm("cm"), Nm("ms")), Dv(Nm("angstrom"), Nm("ps"))>>,
               <<Dv(Nm("g"), Pw(Nm("cm"), 3)), Dv(Nm("kg"), Pw(Nm("m"), 3))>>, <<Dv(Nm("eV"), Pw(Nm("angstrom"), 3)), Nm("GPa")>>,
               <<Dv(Nm("eV"), Nm("angstrom")), Nm("N")>>, <<Mu(Nm("bar"), Pw(Nm("nm"), 3)), Nm("eV")>> }
SameDim(p) == Eval(p[1]).dim = Eval(p[2]).dim
ConvsWellTyped == \A p \in ConvPairs : SameDim(p)
Ratio(p) == VMul(Eval(p[1]), VInv(Eval(p[2])))

UInit == ucase = <<>> /\ uphase = 0 /\ ucfg = "random" /\ uh = <<>>
GenParse == UMode = "parse" /\ uphase = 0 /\ uphase' = 1 /\ UNCHANGED <<ucfg, uh>> /\
            ( (\E e \in Asts(UDepth) : \E sp \in BOOLEAN :
                 LET v == Eval(e) IN ucase' = [kind |-> "parse", s |-> Str(e, sp), n |-> v.n, d |-> v.d, x |-> v.x, dim |-> v.dim])
              \/ (\E b \in BadStrings : ucase' = [kind |-> "refuse", s |-> b]) )
ResetNamed == UMode = "history" /\ Len(uh) < HDepth /\ UNCHANGED <<ucase, uphase>> /\
              \E l \in Opt("length") : \E m \in Opt("mass") : \E t \in Opt("time") : \E en \in Opt("energy") : \E q \in Opt("charge") :
                 LET full == [length |-> l, mass |-> m, time |-> t, energy |-> en, charge |-> q]
                     S == {k \in DimNames : full[k] # "-"} IN
                 OkSel(S) /\ ucfg' = full /\ uh' = Append(uh, [act |-> "reset_named", cfg |-> full, dims |-> S])
ResetSeed == UMode = "history" /\ Len(uh) < HDepth /\ UNCHANGED <<ucase, uphase>> /\
             \E sd \in {1, 7, 12345} : ucfg' = "random" /\ uh' = Append(uh, [act |-> "reset_seed", seed |-> sd])
GenConv == UMode = "conv" /\ uphase = 0 /\ uphase' = 1 /\ UNCHANGED <<ucfg, uh>> /\
           \E p \in ConvPairs : LET r == Ratio(p) IN
              ucase' = [kind |-> "conv", from |-> Str(p[1], FALSE), to |-> Str(p[2], FALSE), n |-> r.n, d |-> r.d, x |-> r.x]
UNext == GenParse \/ GenConv \/ ResetNamed \/ ResetSeed
UEmit == (UMode \in {"parse", "conv"} /\ uphase = 1 => PrintT("@@CASE " \o ToJson(ucase)))
         /\ (UMode = "history" /\ Len(uh) = HDepth => PrintT("@@CASE " \o ToJson(uh)))

\* design-level sanity of the evaluator: printing then reading the structure back is not needed -- Eval is on the AST;
\* what TLC checks here is that the exact arithmetic stays inside 32 bits (TLC aborts on overflow) and dimensions add up
EvalSane == uphase = 1 /\ ucase.kind = "parse" => ucase.d > 0 /\ ucase.n > 0

\* ---- conformance verdicts --------------------------------------------------------------------------------------
\* LAMMPS unit-style tables: the dimension OBSERVED for an entry must be the dimension of its label
KindDim == [ mass |-> DimM, length |-> DimL, time |-> DimT, energy |-> DimE, velocity |-> <<1,0,-1,0>>, force |-> DimF,
             torque |-> DimE, pressure |-> DimP, viscosity |-> <<-1,1,-1,0>>, density |-> <<-3,1,0,0>>, density2d |-> <<-2,1,0,0>> ]
VerdictUnit(r) ==
    CASE r.ev = "styledim" -> IF r.dim = KindDim[r.kind] \/ (r.kind = "density" /\ r.dim = KindDim["density2d"]) THEN "ok"
                              ELSE "style_table_entry_has_the_wrong_dimension"
      [] OTHER -> "unknown_event"
====
