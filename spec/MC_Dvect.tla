---- MODULE MC_Dvect ----
EXTENDS Dvect
C(a,b,c,o) == [v |-> <<a,b,c>>, o |-> o]
CellsQuick == {
  C(<<8,0,0>>, <<0,8,0>>, <<0,0,8>>, <<0,0,0>>),           \* cubic
  C(<<8,0,0>>, <<0,12,0>>, <<0,0,4>>, <<-4,4,8>>),         \* orthorhombic, origin # 0
  C(<<8,0,0>>, <<4,8,0>>, <<0,4,8>>, <<2,-6,0>>),          \* mildly tilted
  C(<<8,0,0>>, <<8,8,0>>, <<0,8,8>>, <<0,0,0>>),           \* tilt = cell length
  C(<<8,4,0>>, <<-4,8,4>>, <<0,4,12>>, <<1,1,1>>),         \* not LAMMPS oriented
  C(<<16,0,0>>, <<12,4,0>>, <<4,4,8>>, <<-4,0,4>>)         \* thin and strongly tilted: b - a is shorter than every cell vector
}
CellsThorough == CellsQuick \cup {
  C(<<8,0,0>>, <<12,8,0>>, <<0,0,8>>, <<0,0,0>>),          \* tilt > cell length
  C(<<0,8,0>>, <<0,0,8>>, <<8,0,0>>, <<-8,0,8>>),          \* cyclically permuted cubic
  C(<<8,0,0>>, <<0,8,0>>, <<0,0,-8>>, <<0,0,8>>),          \* left-handed
  C(<<4,0,0>>, <<0,16,0>>, <<8,0,8>>, <<0,0,0>>),          \* thin, xz tilt
  C(<<16,0,0>>, <<-8,12,0>>, <<0,0,20>>, <<0,0,0>>)        \* hexagonal-like
}
Minus2 == -1
====
