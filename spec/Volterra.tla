---- MODULE Volterra ----
(***************************************************************************)
(* C12 -- Volterra dislocation fields.  The fields are transcendental, so  *)
(* TLC decides recorded executions through laws that are linear in the     *)
(* logged fixed-point numbers with small integer coefficients:             *)
(*   jump       u(-r,+0) - u(-r,-0) = b, continuity across the other half  *)
(*   homogeneity k sigma(k p) = sigma(p), k eps(k p) = eps(p)  (the 1/r    *)
(*              clause, exact relation)                                    *)
(*   Hooke      sigma - C:eps = 0                                          *)
(*   derivative relations by central differences with the RICHARDSON-PAIR  *)
(*              rule: the residual at step h/2 is at most 1/3 of the one   *)
(*              at step h (or below the logging floor)                     *)
(*   K          symmetric, positive leading minors                         *)
(*   covariance rotating the whole problem by a proper signed permutation  *)
(*   isotropic  pi * sigma at integer points = exact rational (closed form)*)
(*   limit      |Stroh - isotropic| shrinks as the Zener ratio -> 1        *)
(***************************************************************************)
EXTENDS Integers, Sequences, FiniteSets, TLC, Json

VARIABLES vdummy
vvars == <<vdummy>>
Abs(x) == IF x < 0 THEN -x ELSE x
Close(a, b, sl) == Abs(a - b) <= sl
AllClose(a, b, sl) == Len(a) = Len(b) /\ \A i \in 1..Len(a) : Close(a[i], b[i], sl)

VerdictJump(r) ==          \* r.up, r.dn: S*u just above / below the cut half-plane ; r.up2, r.dn2: across the other half-plane ; r.b: S*b
    IF \E i \in 1..3 : ~Close(r.up[i] - r.dn[i], r.b[i], r.tol) THEN "displacement_jump_across_the_cut_is_not_the_burgers_vector"
    ELSE IF \E i \in 1..3 : ~Close(r.up2[i], r.dn2[i], r.tol) THEN "displacement_discontinuous_away_from_the_cut"
    ELSE "ok"
VerdictHomog(r) ==         \* r.f1 = S*field(p) (9 components), r.fk = S*k*field(k p)
    IF ~AllClose(r.f1, r.fk, r.tol) THEN "field_does_not_fall_off_as_one_over_r" ELSE "ok"
VerdictHooke(r) ==         \* r.sig, r.ceps : S*sigma and S*(C:eps)
    IF ~AllClose(r.sig, r.ceps, r.tol) THEN "stress_is_not_stiffness_times_strain"
    ELSE IF \E k \in {2, 3, 6} : ~Close(r.sig[k], r.sig[(IF k = 2 THEN 4 ELSE IF k = 3 THEN 7 ELSE 8)], r.tol) THEN "stress_not_symmetric"
    ELSE "ok"
\* Richardson pair: residual norms (fixed point) of a finite-difference identity at steps h and h/2
Richardson(Rh, Rh2, floor) == Rh2 <= floor \/ 3 * Rh2 <= Rh + floor
VerdictGrad(r) ==
    IF ~Richardson(r.eps_h, r.eps_h2, r.floor) THEN "strain_is_not_the_symmetric_gradient_of_the_displacement"
    ELSE IF ~Richardson(r.div_h, r.div_h2, r.floor) THEN "stress_is_not_divergence_free"
    ELSE "ok"
Det2(a, b, c, d) == a * d - b * c
VerdictK(r) ==             \* r.k: 3x3 at scale 2^10
    LET K == r.k IN
    IF \E i \in 1..3 : \E j \in 1..3 : ~Close(K[i][j], K[j][i], 1) THEN "energy_coefficient_tensor_not_symmetric"
    ELSE IF ~r.real THEN "energy_coefficient_tensor_not_real"
    ELSE IF K[1][1] <= 0 \/ Det2(K[1][1], K[1][2], K[2][1], K[2][2]) <= 0
            \/ (K[1][1] * Det2(K[2][2], K[2][3], K[3][2], K[3][3]) - K[1][2] * Det2(K[2][1], K[2][3], K[3][1], K[3][3])
                + K[1][3] * Det2(K[2][1], K[2][2], K[3][1], K[3][2])) <= 0 THEN "energy_coefficient_tensor_not_positive_definite"
    ELSE "ok"
VerdictCovar(r) ==         \* r.a = g . field(P)(p) , r.b = field(g.P)(g.p)  (vectors or flattened tensors, fixed point)
    IF ~AllClose(r.a, r.b, r.tol) THEN "fields_not_covariant_under_rotation_of_the_whole_problem" ELSE "ok"
\* isotropic closed form (Hirth & Lothe): edge b along x, line along z, D = mu b / (2 pi (1-nu)) ; screw b along z
\* pi * sigma_xx = -Dn y (3x^2+y^2) / (Dd r^4) ... with mu = r.mu, nu = r.nun/r.nud, b = 1: pi*D = mu*nud / (2 (nud - nun))
Expect(num, den, S) == (num * S) \div den
VerdictIso(r) ==           \* integer point (x,y); r.got = <<pi*sxx, pi*syy, pi*sxy, pi*sxz, pi*syz>> * S ; be, bs: edge / screw Burgers components (integers)
    LET x == r.x  y == r.y  r2 == x*x + y*y  r4 == r2 * r2
        dn == r.mu * r.nud  dd == 2 * (r.nud - r.nun)
        exx == Expect(-r.be * dn * y * (3*x*x + y*y), dd * r4, r.s)
        eyy == Expect( r.be * dn * y * (x*x - y*y), dd * r4, r.s)
        exy == Expect( r.be * dn * x * (x*x - y*y), dd * r4, r.s)
        exz == Expect(-r.bs * r.mu * y, 2 * r2, r.s)
        eyz == Expect( r.bs * r.mu * x, 2 * r2, r.s)
    IN IF ~AllClose(r.got, <<exx, eyy, exy, exz, eyz>>, r.tol) THEN "isotropic_stress_is_not_the_closed_form" ELSE "ok"
VerdictLimit(r) ==         \* r.d[k]: fixed-point |Stroh - isotropic| for Zener ratio 1 + 2^-(k+2), k = 1..6
    IF \E k \in 2..Len(r.d) : r.d[k] > r.d[k-1] + r.tol THEN "anisotropic_solution_does_not_approach_the_isotropic_one"
    ELSE IF r.d[Len(r.d)] * 8 > r.d[1] + 8 * r.tol THEN "anisotropic_solution_does_not_approach_the_isotropic_one"
    ELSE "ok"
VerdictVolterra(r) ==
    CASE r.ev = "jump" -> VerdictJump(r) [] r.ev = "homog" -> VerdictHomog(r) [] r.ev = "hooke" -> VerdictHooke(r) [] r.ev = "grad" -> VerdictGrad(r)
      [] r.ev = "K" -> VerdictK(r) [] r.ev = "covar" -> VerdictCovar(r) [] r.ev = "iso" -> VerdictIso(r) [] r.ev = "limit" -> VerdictLimit(r)
      [] OTHER -> "unknown_event"
====
