---- MODULE MC_LogFile ----
EXTENDS LogFile
====
