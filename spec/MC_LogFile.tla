---- MODULE MC_LogFile ----
EXTENDS LogFile
Vers == {"29 Oct 2020", "3 Mar 2020 - Update 2"}
====
