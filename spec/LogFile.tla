---- MODULE LogFile ----
(***************************************************************************)
(* C19 -- LAMMPS log reading.  A log is described abstractly (shape): the  *)
(* version banner, which memory banner, the runs (thermo keyword set,      *)
(* number of rows, how the step range relates to the previous run), an     *)
(* optional timing breakdown, and whether the final block is complete or   *)
(* cut after r rows / right after its header.  Tables(shape) is what the   *)
(* log SAYS: one table per run, column names, integer cell codes (the      *)
(* driver prints float columns as code/4).  The state machine is a Log     *)
(* object: list of tables + version; actions Read(shape, append, kind)     *)
(* and Flatten(style), whose result is specified on step sets.             *)
(***************************************************************************)
EXTENDS Integers, Sequences, FiniteSets, TLC, Json

CONSTANTS MaxRuns, MaxRows, LDepth, Versions

VARIABLES sims, ver, lh
lvars == <<sims, ver, lh>>

ColSets == { <<"Step", "Temp">>, <<"Step", "PotEng", "Press", "Atoms">> }
Rels == {"cont", "gap", "overlap", "same"}
RunShapes == [cols : ColSets, n : 1..MaxRows, rel : Rels]
\* shapes: sequences of 1..MaxRuns runs
RunSeqs == UNION { [1..k -> RunShapes] : k \in 1..MaxRuns }
Shapes == [runs : RunSeqs, trunc : {-1, 0, 1}, banner : {"old", "new"}, timing : BOOLEAN, version : Versions, blanks : BOOLEAN]

\* first step of run k (steps advance by 10)
RECURSIVE FirstStep(_, _)
FirstStep(runs, k) ==
    IF k = 1 THEN 0
    ELSE LET pf == FirstStep(runs, k-1)  pl == pf + 10 * (runs[k-1].n - 1) IN
         CASE runs[k].rel = "cont"    -> pl
           [] runs[k].rel = "gap"     -> pl + 10
           [] runs[k].rel = "overlap" -> pf + 10
           [] runs[k].rel = "same"    -> pf
\* monotone logs only: every run starts and ends no earlier than the previous one
Monotone(runs) == \A k \in 2..Len(runs) :
    FirstStep(runs, k) + 10 * (runs[k].n - 1) >= FirstStep(runs, k-1) + 10 * (runs[k-1].n - 1)
Cell(k, c, step) == IF c = 1 THEN step ELSE 1000 * k + 7 * (step \div 10) + c       \* deterministic cell code
RowOf(runs, k, j) == LET st == FirstStep(runs, k) + 10 * (j - 1) IN [c \in 1..Len(runs[k].cols) |-> Cell(k, c, st)]
\* rows actually printed for run k
Printed(sh, k) == IF k = Len(sh.runs) /\ sh.trunc >= 0 THEN (IF sh.trunc < sh.runs[k].n THEN sh.trunc ELSE sh.runs[k].n) ELSE sh.runs[k].n
Tables(sh) == [k \in 1..Len(sh.runs) |-> [cols |-> sh.runs[k].cols, rows |-> [j \in 1..Printed(sh, k) |-> RowOf(sh.runs, k, j)]]]
WellFormed(sh) == Monotone(sh.runs) /\ (sh.trunc >= 0 => ~sh.timing \/ Len(sh.runs) > 1)

\* ---- flatten, specified on step sets ------------------------------------------------------------------
StepsOf(t) == {t.rows[j][1] : j \in 1..Len(t.rows)}
AllSteps(ts) == UNION {StepsOf(ts[k]) : k \in 1..Len(ts)}
RunsWith(ts, s) == {k \in 1..Len(ts) : s \in StepsOf(ts[k])}
Pick(ts, s, style) == LET K == RunsWith(ts, s)
                          k == IF style = "first" THEN CHOOSE x \in K : \A y \in K : x <= y ELSE CHOOSE x \in K : \A y \in K : x >= y
                          j == CHOOSE jj \in 1..Len(ts[k].rows) : ts[k].rows[jj][1] = s IN
                      [run |-> k, step |-> s, cols |-> ts[k].cols, row |-> ts[k].rows[j]]
\* expected flattened content: for every step, which run supplies it and the row (set semantics, keyed by step)
FlatExpect(ts, style) == { Pick(ts, s, style) : s \in AllSteps(ts) }
FlatAll(ts) == [n |-> LET S == [k \in 1..Len(ts) |-> Len(ts[k].rows)] IN IF Len(ts) = 0 THEN 0 ELSE
                       LET RECURSIVE Sum(_) Sum(i) == IF i = 0 THEN 0 ELSE S[i] + Sum(i-1) IN Sum(Len(ts))]

\* ---- the Log object -----------------------------------------------------------------------------------------
LInit == sims = <<>> /\ ver = "none" /\ lh = <<>>
Read == \E sh \in Shapes : \E append \in BOOLEAN : \E kind \in {"text", "path", "stream"} :
    WellFormed(sh) /\
    LET base == IF append THEN sims ELSE <<>>
        v0 == IF append THEN ver ELSE "none"
        s2 == base \o Tables(sh)
        v2 == IF v0 = "none" THEN sh.version ELSE v0 IN
    /\ Len(s2) <= 2 * MaxRuns
    /\ sims' = s2 /\ ver' = v2
    /\ lh' = Append(lh, [act |-> "read", shape |-> sh, append |-> append, kind |-> kind, sims |-> s2, version |-> v2])
Flatten == \E style \in {"first", "last", "all"} :
    /\ Len(sims) > 0 /\ UNCHANGED <<sims, ver>>
    /\ lh' = Append(lh, [act |-> "flatten", style |-> style,
                         expect |-> IF style = "all" THEN {} ELSE FlatExpect(sims, style), nall |-> FlatAll(sims).n, sims |-> sims, version |-> ver])
LNext == Len(lh) < LDepth /\ (Read \/ Flatten)

\* design-level: every step of every run appears exactly once in a first/last flattening
FlattenCovers == \A style \in {"first", "last"} :
    Len(sims) > 0 => (Cardinality(FlatExpect(sims, style)) = Cardinality(AllSteps(sims)) /\ {p.step : p \in FlatExpect(sims, style)} = AllSteps(sims))
OneRecordPerRun == \A k \in 1..Len(lh) : lh[k].act = "read" =>
    Len(lh[k].sims) = (IF lh[k].append /\ k > 1 THEN Len(lh[k-1].sims) ELSE 0) + Len(lh[k].shape.runs)
LEmit == Len(lh) = LDepth => PrintT("@@CASE " \o ToJson(lh))
====
