---- MODULE LogFile ----
(***************************************************************************)
(* C19 -- LAMMPS log reading.  A log is described abstractly (shape): the  *)
(* version banner, which memory banner, the runs (thermo keyword set,      *)
(* number of rows, how the step range relates to the previous run), an     *)
(* optional timing breakdown, and whether the final block is complete or   *)
(* cut after r rows / right after its header.  Tables(shape) is what the   *)
(* log SAYS: one table per run, column names, integer cell codes (the      *)
(* driver prints float columns as code/4).  The state machine is a Log     *)
(* object: list of tables + version; actions Read(shape, append, kind)     *)
(* and Flatten(style), whose result is specified on step sets.             *)
(***************************************************************************)
EXTENDS Integers, Sequences, FiniteSets, TLC, Json

CONSTANTS MaxRuns, MaxRows, LDepth, MaxReads, Slim      \* Slim: one style / keyword set / input kind (deeper run structure instead)

VARIABLES sims, ver, lh, cur      \* cur: the log being written (a shape under construction) or NoLog
lvars == <<sims, ver, lh, cur>>
NoLog == [runs |-> <<>>, open |-> FALSE]

ColSets == { <<"Step", "Temp">>, <<"Step", "PotEng", "Press", "Atoms">> }
Rels == {"cont", "gap", "overlap", "same"}
\* presentation styles (which memory banner, timing breakdown present, version banner, blank lines sprinkled in)
Styles == { [banner |-> "old", timing |-> FALSE, version |-> "v1", blanks |-> FALSE],
            [banner |-> "new", timing |-> TRUE,  version |-> "v2", blanks |-> TRUE],
            [banner |-> "new", timing |-> FALSE, version |-> "v1", blanks |-> TRUE],
            [banner |-> "old", timing |-> TRUE,  version |-> "v2", blanks |-> FALSE] }

\* first step of run k (steps advance by 10)
RECURSIVE FirstStep(_, _)
FirstStep(runs, k) ==
    IF k = 1 THEN 0
    ELSE LET pf == FirstStep(runs, k-1)  pl == pf + 10 * (runs[k-1].n - 1) IN
         CASE runs[k].rel = "cont"    -> pl
           [] runs[k].rel = "gap"     -> pl + 10
           [] runs[k].rel = "overlap" -> pf + 10
           [] runs[k].rel = "same"    -> pf
\* monotone logs only: every run starts and ends no earlier than the previous one
Monotone(runs) == \A k \in 2..Len(runs) :
    FirstStep(runs, k) + 10 * (runs[k].n - 1) >= FirstStep(runs, k-1) + 10 * (runs[k-1].n - 1)
Cell(k, c, step) == IF c = 1 THEN step ELSE 100 * k + 7 * (step \div 10) + c        \* deterministic cell code (k: global run number)
RowOf(runs, k, j, salt, s0) == LET st == s0 + FirstStep(runs, k) + 10 * (j - 1) IN [c \in 1..Len(runs[k].cols) |-> Cell(k + salt, c, st)]
\* rows actually printed for run k
Printed(sh, k) == IF k = Len(sh.runs) /\ sh.trunc >= 0 THEN (IF sh.trunc < sh.runs[k].n THEN sh.trunc ELSE sh.runs[k].n) ELSE sh.runs[k].n
Tables(sh, salt, s0) == [k \in 1..Len(sh.runs) |-> [cols |-> sh.runs[k].cols, rows |-> [j \in 1..Printed(sh, k) |-> RowOf(sh.runs, k, j, salt, s0)]]]
\* the domain: printed step ranges never go backwards from one (non-empty) table to the next
NonEmpty(ts) == SelectSeq(ts, LAMBDA t : Len(t.rows) > 0)
\* (a restarted run never starts BEFORE its predecessor started; it may well end earlier -- a crashed restart)
PrintedMonotone(ts) == LET ne == NonEmpty(ts) IN \A k \in 2..Len(ne) : ne[k].rows[1][1] >= ne[k-1].rows[1][1]
EndsMonotone(ts) == LET ne == NonEmpty(ts) IN \A k \in 2..Len(ne) : ne[k].rows[Len(ne[k].rows)][1] >= ne[k-1].rows[Len(ne[k-1].rows)][1]
WellFormed(sh) == Monotone(sh.runs) /\ (sh.trunc >= 0 => ~sh.timing \/ Len(sh.runs) > 1)

\* ---- flatten, specified on step sets ------------------------------------------------------------------
StepsOf(t) == {t.rows[j][1] : j \in 1..Len(t.rows)}
AllSteps(ts) == UNION {StepsOf(ts[k]) : k \in 1..Len(ts)}
RunsWith(ts, s) == {k \in 1..Len(ts) : s \in StepsOf(ts[k])}
Pick(ts, s, style) == LET K == RunsWith(ts, s)
                          k == IF style = "first" THEN CHOOSE x \in K : \A y \in K : x <= y ELSE CHOOSE x \in K : \A y \in K : x >= y
                          j == CHOOSE jj \in 1..Len(ts[k].rows) : ts[k].rows[jj][1] = s IN
                      [run |-> k, step |-> s, cols |-> ts[k].cols, row |-> ts[k].rows[j]]
\* expected flattened content: for every step, which run supplies it and the row (set semantics, keyed by step)
FlatExpect(ts, style) == { Pick(ts, s, style) : s \in AllSteps(ts) }
FlatAll(ts) == [n |-> LET S == [k \in 1..Len(ts) |-> Len(ts[k].rows)] IN IF Len(ts) = 0 THEN 0 ELSE
                       LET RECURSIVE Sum(_) Sum(i) == IF i = 0 THEN 0 ELSE S[i] + Sum(i-1) IN Sum(Len(ts))]

\* ---- the Log object -----------------------------------------------------------------------------------------
LInit == sims = <<>> /\ ver = "none" /\ lh = <<>> /\ cur = NoLog
\* a LAMMPS process writes a log: banner, then run after run, then it ends (normally, or cut short)
NReads == Cardinality({k \in 1..Len(lh) : lh[k].act = "read"})
StartLog == ~cur.open /\ NReads < MaxReads /\ \E st \in (IF Slim THEN {CHOOSE x \in Styles : x.timing /\ x.banner = "new"} ELSE Styles) : cur' = [runs |-> <<>>, open |-> TRUE, style |-> st] /\ UNCHANGED <<sims, ver, lh>>
AddRun == cur.open /\ Len(cur.runs) < MaxRuns /\
          \E cs \in (IF Slim THEN {<<"Step", "Temp">>} ELSE ColSets) : \E n \in 1..MaxRows : \E rel \in (IF Len(cur.runs) = 0 THEN {"cont"} ELSE Rels) :
             LET runs2 == Append(cur.runs, [cols |-> cs, n |-> n, rel |-> rel]) IN
             cur' = [cur EXCEPT !.runs = runs2] /\ UNCHANGED <<sims, ver, lh>>
\* the finished log is read: trunc = -1 complete, r >= 0: final block cut after r rows (0 = right after its header)
Read == cur.open /\ Len(cur.runs) > 0 /\ \E trunc \in {-1, 0, 1} : \E append \in (IF Slim THEN {TRUE} ELSE BOOLEAN) : \E kind \in (IF Slim THEN {"text"} ELSE {"text", "path", "stream"}) :
    LET sh == [runs |-> cur.runs, trunc |-> trunc, banner |-> cur.style.banner, timing |-> cur.style.timing,
               version |-> cur.style.version, blanks |-> cur.style.blanks]
        base == IF append THEN sims ELSE <<>>
        v0 == IF append THEN ver ELSE "none"
        s0 == IF append /\ Len(NonEmpty(sims)) > 0 /\ cur.style.timing THEN LET ne == NonEmpty(sims) IN ne[Len(ne)].rows[Len(ne[Len(ne)].rows)][1] ELSE 0
        s2 == base \o Tables(sh, Len(base), s0)     \* a restarted simulation continues the step count (s0) or starts again at 0
        v2 == IF v0 = "none" THEN sh.version ELSE v0 IN
    /\ (trunc >= 0 => trunc < cur.runs[Len(cur.runs)].n)
    /\ Len(s2) <= 2 * MaxRuns
    /\ PrintedMonotone(s2)
    /\ sims' = s2 /\ ver' = v2 /\ cur' = NoLog
    /\ lh' = Append(lh, [act |-> "read", shape |-> sh, append |-> append, kind |-> kind, sims |-> s2, version |-> v2])
Flatten == \E style \in {"first", "last", "all"} :
    /\ ~cur.open /\ Len(sims) > 0 /\ UNCHANGED <<sims, ver, cur>>
    /\ lh' = Append(lh, [act |-> "flatten", style |-> style,
                         expect |-> IF style = "all" THEN {} ELSE FlatExpect(sims, style), nall |-> FlatAll(sims).n, sims |-> sims, version |-> ver, endsmonotone |-> EndsMonotone(sims)])
LNext == Len(lh) < LDepth /\ (StartLog \/ AddRun \/ Read \/ Flatten)

\* design-level: every step of every run appears exactly once in a first/last flattening
FlattenCovers == \A style \in {"first", "last"} :
    Len(sims) > 0 => (Cardinality(FlatExpect(sims, style)) = Cardinality(AllSteps(sims)) /\ {p.step : p \in FlatExpect(sims, style)} = AllSteps(sims))
OneRecordPerRun == \A k \in 1..Len(lh) : lh[k].act = "read" =>
    Len(lh[k].sims) = (IF lh[k].append /\ k > 1 THEN Len(lh[k-1].sims) ELSE 0) + Len(lh[k].shape.runs)
LEmit == (Len(lh) = LDepth /\ ~cur.open) => PrintT("@@CASE " \o ToJson(lh))
====
