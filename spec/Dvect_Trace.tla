---- MODULE Dvect_Trace ----
EXTENDS Dvect, IOUtils
Tr == ndJsonDeserialize(IOEnv.TRACE_FILE)
VARIABLE l
TInit == l = 1 /\ cell = 0 /\ pbc = 0 /\ p0 = 0 /\ p1 = 0 /\ phase = 0
TNext == l <= Len(Tr) /\ l' = l + 1 /\ UNCHANGED vars
Check == l <= Len(Tr) =>
           LET w == Verdict(Tr[l]) IN (w = "ok" \/ PrintT("@@BAD " \o ToJson([l |-> l, clause |-> w])))
Done == (l = Len(Tr) + 1) => PrintT("@@DONE " \o ToString(Len(Tr)))
====
