---- MODULE Elastic ----
(***************************************************************************)
(* C11 -- elastic-constant representations and tensor rotation, in exact   *)
(* integer arithmetic.  A stiffness is a symmetric 6x6 integer matrix C in *)
(* Voigt notation; everything else is DEFINED from it:                     *)
(*   Cijkl[i,j,k,l] = C[V(i,j), V(k,l)]          (Voigt's definition)      *)
(*   Cij9 [I,J]     = Cijkl over the nine ordered pairs 11,22,33,23,13,12, *)
(*                    32,31,21                                             *)
(*   Sijkl[i,j,k,l] = S[V(i,j), V(k,l)] / (w(V(i,j)) w(V(k,l))), w = 1 for *)
(*                    normal, 2 for shear components                       *)
(*   rotation to new axes g (rows = new axes): the 4th-rank tensor law     *)
(* The 24 proper signed permutations keep integers exact; TLC checks the   *)
(* group laws and energy invariance on the model and emits every expected  *)
(* entry as an implementation case.                                        *)
(***************************************************************************)
EXTENDS Arith, Json

CONSTANTS EMode          \* "index" | "group" | "iso"
VARIABLES ecase, ephase
evars == <<ecase, ephase>>

\* ---- Voigt ---------------------------------------------------------------------------------------------------
V(i, j) == IF i = j THEN i ELSE 9 - i - j            \* (2,3)->4, (1,3)->5, (1,2)->6
W(I) == IF I <= 3 THEN 1 ELSE 2
Pair9 == << <<1,1>>, <<2,2>>, <<3,3>>, <<2,3>>, <<1,3>>, <<1,2>>, <<3,2>>, <<3,1>>, <<2,1>> >>
\* a generic stiffness with 21 distinct integer entries, symmetric (diagonally dominant, hence positive definite)
Cgen == [I \in 1..6 |-> [J \in 1..6 |-> IF I = J THEN 400 + 10 * I ELSE 7 * (IF I < J THEN I ELSE J) + (IF I < J THEN J ELSE I) * (IF I < J THEN J ELSE I)]]
T4(C) == [i \in 1..3 |-> [j \in 1..3 |-> [k \in 1..3 |-> [l \in 1..3 |-> C[V(i,j)][V(k,l)]]]]]
Voigt6(c) == [I \in 1..6 |-> [J \in 1..6 |-> LET p == Pair9[I] q == Pair9[J] IN c[p[1]][p[2]][q[1]][q[2]]]]
MinorMajor(c) == \A i \in 1..3 : \A j \in 1..3 : \A k \in 1..3 : \A l \in 1..3 :
                   c[i][j][k][l] = c[j][i][k][l] /\ c[i][j][k][l] = c[i][j][l][k] /\ c[i][j][k][l] = c[k][l][i][j]

\* ---- proper signed permutations and the tensor law -----------------------------------------------------------------
Perms3 == { p \in [1..3 -> 1..3] : \A a \in 1..3 : \E b \in 1..3 : p[b] = a }
Signs3 == [1..3 -> {-1, 1}]
AxesOf(p, s) == [i \in 1..3 |-> [j \in 1..3 |-> IF p[i] = j THEN s[i] ELSE 0]]       \* row i = new axis i
SignedPerms == { AxesOf(p, s) : p \in Perms3, s \in Signs3 }
Proper == { g \in SignedPerms : Det3(g) = 1 }
\* C'_{ijkl} = sum g_ia g_jb g_kc g_ld C_abcd ; for a signed permutation each sum has exactly one term
ImageOf(g, i) == CHOOSE a \in 1..3 : g[i][a] # 0
Rot4(g, c) == [i \in 1..3 |-> [j \in 1..3 |-> [k \in 1..3 |-> [l \in 1..3 |->
                 g[i][ImageOf(g,i)] * g[j][ImageOf(g,j)] * g[k][ImageOf(g,k)] * g[l][ImageOf(g,l)]
                 * c[ImageOf(g,i)][ImageOf(g,j)][ImageOf(g,k)][ImageOf(g,l)]]]]]
Act(g, C) == Voigt6(Rot4(g, T4(C)))
Compose(h, g) == MatMul(h, g)              \* axes h given in the frame already rotated by g
\* strain energy density 2W = eps:C:eps for an integer symmetric strain; co-rotated strain eps' = g eps g^T
Energy(c, e) == LET RECURSIVE S(_) S(n) == IF n = 0 THEN 0 ELSE
                     LET i == ((n-1) \div 27) + 1  j == (((n-1) \div 9) % 3) + 1  k == (((n-1) \div 3) % 3) + 1  l == ((n-1) % 3) + 1
                     IN c[i][j][k][l] * e[i][j] * e[k][l] + S(n-1) IN S(81)
RotStrain(g, e) == MatMul(MatMul(g, e), Transp(g))
StrainSeq == << <<<<1,2,0>>, <<2,-1,3>>, <<0,3,2>>>>, <<<<0,1,1>>, <<1,0,-2>>, <<1,-2,3>>>> >>
Strains == {StrainSeq[n] : n \in 1..Len(StrainSeq)}

\* ---- design-level group laws (checked by TLC over all 24 x 24 elements) ------------------------------------------------
GroupLaws ==
    /\ Act(Ident3, Cgen) = Cgen
    /\ \A g \in Proper : \A h \in Proper : Act(h, Act(g, Cgen)) = Act(Compose(h, g), Cgen)
    /\ \A g \in Proper : Act(Transp(g), Act(g, Cgen)) = Cgen
    /\ \A g \in Proper : MinorMajor(Rot4(g, T4(Cgen)))
    /\ \A g \in Proper : \A e \in Strains : Energy(Rot4(g, T4(Cgen)), RotStrain(g, e)) = Energy(T4(Cgen), e)
\* crystal-system point groups inside the signed permutations (z = unique axis)
Rz90 == <<<<0,1,0>>, <<-1,0,0>>, <<0,0,1>>>>
Rx180 == <<<<1,0,0>>, <<0,-1,0>>, <<0,0,-1>>>>
Ry180 == <<<<-1,0,0>>, <<0,1,0>>, <<0,0,-1>>>>
Rz180 == <<<<-1,0,0>>, <<0,-1,0>>, <<0,0,1>>>>
R111 == <<<<0,1,0>>, <<0,0,1>>, <<1,0,0>>>>
Generators == [ cubic |-> {Rz90, R111}, tetragonal |-> {Rz90, Rx180}, orthorhombic |-> {Rx180, Ry180, Rz180}, monoclinic |-> {Ry180},
                hexagonal |-> {Rz180, Rx180}, rhombohedral |-> {Rx180}, isotropic |-> {Rz90, R111, Rx180} ]

EInit == ephase = 0 /\ ecase = <<>>
GenIndex == EMode = "index" /\ \E i \in 1..3 : \E j \in 1..3 : \E k \in 1..3 : \E l \in 1..3 :
              ecase' = [kind |-> "index", ijkl |-> <<i,j,k,l>>, vi |-> V(i,j), vj |-> V(k,l), c |-> Cgen[V(i,j)][V(k,l)], w |-> W(V(i,j)) * W(V(k,l))]
GenNine == EMode = "index" /\ \E I \in 1..9 : \E J \in 1..9 :
              ecase' = [kind |-> "nine", ij |-> <<I,J>>, c |-> Cgen[V(Pair9[I][1], Pair9[I][2])][V(Pair9[J][1], Pair9[J][2])]]
GenGroup == EMode = "group" /\ \E g \in Proper : \E h \in Proper :
              ecase' = [kind |-> "group", g |-> g, h |-> h, cg |-> Act(g, Cgen), chg |-> Act(Compose(h, g), Cgen), hg |-> Compose(h, g),
                        energy |-> [n \in 1..Len(StrainSeq) |-> Energy(T4(Cgen), StrainSeq[n])]]
\* isotropic moduli as forward rational functions of integer Lame constants (lam >= 0, mu > 0  <=>  0 <= nu < 1/2)
Moduli(lam, mu) == [ M |-> Rat(lam + 2*mu, 1), lambda |-> Rat(lam, 1), mu |-> Rat(mu, 1), E |-> Rat(mu * (3*lam + 2*mu), lam + mu),
                     nu |-> Rat(lam, 2 * (lam + mu)), K |-> Rat(3*lam + 2*mu, 3) ]
ModNames == {"M", "lambda", "mu", "E", "nu", "K"}
GenIso == EMode = "iso" /\ \E lam \in {0, 1, 2, 5, 12} : \E mu \in {1, 3, 4, 7} : \E a \in ModNames : \E b \in ModNames :
              a # b /\ ecase' = [kind |-> "iso", lam |-> lam, mu |-> mu, a |-> a, b |-> b, va |-> Moduli(lam, mu)[a], vb |-> Moduli(lam, mu)[b],
                                 c11 |-> lam + 2*mu, c12 |-> lam, c44 |-> mu]
ENext == ephase = 0 /\ ephase' = 1 /\ (GenIndex \/ GenNine \/ GenGroup \/ GenIso)
EEmit == ephase = 1 => PrintT("@@CASE " \o ToJson(ecase))
EEmitGens == (ephase = 0 /\ EMode = "group") => PrintT("@@CASE " \o ToJson([kind |-> "generators", gens |-> Generators, cgen |-> Cgen, strains |-> StrainSeq]))
====
