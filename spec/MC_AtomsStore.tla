---- MODULE MC_AtomsStore ----
EXTENDS AtomsStore
UK == {"q", "vel", "ten"}
AllActs == {"new", "viewset", "propset", "propget", "propatype", "propatype1", "extendn", "extend", "getitem", "setitem",
            "sysnew", "setsymbols", "setmasses", "setpbc", "sysatype", "sysix", "sysextend", "sysextendn", "syspropget"}
AtomsActs == {"new", "viewset", "propset", "propget", "propatype", "propatype1", "extendn", "extend", "getitem", "setitem"}
SysActs == {"sysnew", "setsymbols", "setmasses", "setpbc", "sysatype", "sysix", "sysextend", "sysextendn", "syspropget"}
====
