---- MODULE Nlist_Trace ----
EXTENDS Nlist, IOUtils
Tr == ndJsonDeserialize(IOEnv.TRACE_FILE)
VARIABLE l
TInit == l = 1 /\ ncell = 0 /\ npbc = 0 /\ npos = 0 /\ ncut = 0 /\ nphase = 0
TNext == l <= Len(Tr) /\ l' = l + 1 /\ UNCHANGED nvars
Check == l <= Len(Tr) =>
           LET w == VerdictNlist(Tr[l]) IN (w = "ok" \/ PrintT("@@BAD " \o ToJson([l |-> l, clause |-> w])))
Done == (l = Len(Tr) + 1) => PrintT("@@DONE " \o ToString(Len(Tr)))
====
