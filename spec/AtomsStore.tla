---- MODULE AtomsStore ----
(***************************************************************************)
(* C06 -- per-atom storage under any edit sequence.                        *)
(*                                                                         *)
(* The independent record-per-atom model: an Atoms object is a number of   *)
(* atoms, an ordered key list and, per key, one integer CODE per atom.     *)
(* The driver concretises a code c of a column with trailing shape s as    *)
(* the array c * W[s] (W fixed weight patterns), so trailing shapes        *)
(* (), (3,), (2,2) and dtypes int/float are exercised on the real side     *)
(* while TLC's state stays small; a zero-filled row decodes to code 0.     *)
(* One action per public call; the complete abstract state after every     *)
(* step is part of the emitted history and is compared with the projected  *)
(* real objects (S->C).  Systems add symbols / masses / pbc.               *)
(***************************************************************************)
EXTENDS Integers, Sequences, FiniteSets, TLC, Json

CONSTANTS NSlots,      \* object slots
          MaxN,        \* maximum atoms per object
          UserKeys,    \* e.g. {"q", "vel", "ten"}
          Codes,       \* value codes used by writes, e.g. 0..3
          ADepth,      \* history length
          Alphabet     \* set of action names enabled in this configuration

VARIABLES objs, syss, ah
avars == <<objs, syss, ah>>

NoObj == [n |-> -1, keys |-> <<>>, col |-> <<>>]
NoSys == [n |-> -1, keys |-> <<>>, col |-> <<>>, symbols |-> <<>>, masses |-> <<>>, pbc |-> <<>>]
Live(o) == objs[o].n >= 0
KeySet(ob) == {ob.keys[i] : i \in 1..Len(ob.keys)}
SeqOf(n, f(_)) == [i \in 1..n |-> f(i)]
MaxSeq(s) == IF Len(s) = 0 THEN 0 ELSE CHOOSE m \in {s[i] : i \in 1..Len(s)} : \A i \in 1..Len(s) : s[i] <= m
MinSeq(s) == IF Len(s) = 0 THEN 1 ELSE CHOOSE m \in {s[i] : i \in 1..Len(s)} : \A i \in 1..Len(s) : s[i] >= m
NTypes(ob) == MaxSeq(ob.col["atype"])
\* function override on records-as-functions keyed by strings
ColWith(ob, k, rows) == [kk \in KeySet(ob) \cup {k} |-> IF kk = k THEN rows ELSE ob.col[kk]]
WithCol(ob, k, rows) == [ob EXCEPT !.keys = IF k \in KeySet(ob) THEN ob.keys ELSE Append(ob.keys, k),
                                   !.col  = ColWith(ob, k, rows)]

\* ---- index forms ----------------------------------------------------------------------------
\* an index form denotes an ORDERED list of 1-based row numbers for an object of n rows
IxRows(ix, n) ==
    CASE ix.f = "int"   -> <<ix.i + 1>>                                   \* 0-based int
      [] ix.f = "neg"   -> <<n + ix.i + 1>>                               \* negative int -1..-n
      [] ix.f = "slice" -> [j \in 1..(ix.b - ix.a) |-> ix.a + j]           \* [a:b], 0-based, a<b<=n
      [] ix.f = "list"  -> [j \in 1..Len(ix.l) |-> ix.l[j] + 1]
      [] ix.f = "mask"  -> LET S == {i \in 1..n : ix.m[i]} IN
                           [j \in 1..Cardinality(S) |-> CHOOSE i \in S : Cardinality({t \in S : t < i}) = j - 1]
IxForms(n) ==
    {[f |-> "int", i |-> i] : i \in 0..(n-1)} \cup {[f |-> "neg", i |-> -i] : i \in 1..n}
    \cup {[f |-> "slice", a |-> t[1], b |-> t[2]] : t \in {u \in (0..(n-1)) \X (1..n) : u[1] < u[2]}}
    \cup (IF n >= 2 THEN {[f |-> "list", l |-> <<n-1, 0>>], [f |-> "list", l |-> <<0>>]} ELSE {[f |-> "list", l |-> <<0>>]})
    \cup {[f |-> "mask", m |-> [i \in 1..n |-> i % 2 = 1]], [f |-> "mask", m |-> [i \in 1..n |-> i = n]]}

Step(act, args, ret) == [act |-> act, args |-> args, ret |-> ret]
Log(st, o2, s2) == ah' = Append(ah, [act |-> st.act, args |-> st.args, ret |-> st.ret, objs |-> o2, syss |-> s2])
Do(st, o2, s2) == objs' = o2 /\ syss' = s2 /\ Log(st, o2, s2)
Refuse(act, args, exc) == Do(Step(act, args, [refused |-> exc]), objs, syss)
On(a) == a \in Alphabet

\* ---- Atoms actions --------------------------------------------------------------------------------
FreeSlots == {o \in 1..NSlots : ~Live(o)}
LiveSlots == {o \in 1..NSlots : Live(o)}
Dst == IF FreeSlots # {} THEN {CHOOSE o \in FreeSlots : \A p \in FreeSlots : o <= p} ELSE {NSlots}   \* results overwrite the last slot when full

NewObj(n, uk, seed) ==
    LET ks == <<"atype", "pos">> \o uk IN
    [n |-> n, keys |-> ks,
     col |-> [k \in {ks[i] : i \in 1..Len(ks)} |->
                IF k = "atype" THEN SeqOf(n, LAMBDA i : 1 + ((i + seed) % 2))
                ELSE IF k = "pos" THEN SeqOf(n, LAMBDA i : seed + i)
                ELSE SeqOf(n, LAMBDA i : (seed + 2*i) % 4)]]
ANew == On("new") /\ \E d \in Dst : \E n \in 1..MaxN : \E uk \in {<<>>, <<"q">>, <<"q", "vel">>, <<"ten">>} : \E seed \in 0..1 :
          (\A i \in 1..Len(uk) : uk[i] \in UserKeys) /\
          Do(Step("new", [dst |-> d, n |-> n, uk |-> uk, seed |-> seed], [ok |-> TRUE]),
             [objs EXCEPT ![d] = NewObj(n, uk, seed)], syss)

\* whole-column assignment through view[k] = v / attribute set / prop(key, value=)
AViewSet == On("viewset") /\ \E o \in LiveSlots : \E k \in (KeySet(objs[o]) \cup UserKeys) \ {"pos"} : \E mode \in {"scalar", "len1", "full", "badlen"} :
            \E c \in Codes : \E via \in {"view", "attr", "prop"} :
    LET ob == objs[o]
        rows == IF mode = "full" THEN SeqOf(ob.n, LAMBDA i : ((c + i) % 4) + (IF k = "atype" /\ c > 0 THEN 1 ELSE 0)) ELSE SeqOf(ob.n, LAMBDA i : c)
        args == [o |-> o, k |-> k, mode |-> mode, c |-> c, via |-> via, rows |-> rows] IN
    (mode = "scalar" => k \in {"atype", "q"}) /\
    IF mode = "badlen" THEN (ob.n > 1 /\ c = 1 /\ Refuse("viewset", args, "ValueError"))     \* leading length neither 1 nor natoms
    ELSE IF k = "atype" /\ MinSeq(rows) < 1 THEN Refuse("viewset", args, "ValueError")
    ELSE Do(Step("viewset", args, [ok |-> TRUE]), [objs EXCEPT ![o] = WithCol(ob, k, rows)], syss)

\* indexed write prop(key, index, value): rows T of column k get values (scalar c for int forms, c+j otherwise); atype writes stay >= 1
APropSet == On("propset") /\ \E o \in LiveSlots : \E k \in KeySet(objs[o]) : \E ix \in IxForms(objs[o].n) : \E c \in Codes :
    LET ob == objs[o]  T == IxRows(ix, ob.n)
        vals == IF ix.f \in {"int", "neg"} THEN <<c>> ELSE [j \in 1..Len(T) |-> (c + j) % 4]
        vals1 == IF k = "atype" THEN [j \in 1..Len(vals) |-> (vals[j] % 3) + 1] ELSE vals
        rows == [i \in 1..ob.n |-> IF \E j \in 1..Len(T) : T[j] = i THEN vals1[CHOOSE j \in 1..Len(T) : T[j] = i /\ \A jj \in 1..Len(T) : T[jj] = i => jj <= j] ELSE ob.col[k][i]] IN
    Do(Step("propset", [o |-> o, k |-> k, ix |-> ix, vals |-> vals1], [ok |-> TRUE]), [objs EXCEPT ![o] = WithCol(ob, k, rows)], syss)

\* read prop(key[, index]) -- returns a copy (the driver scribbles on whatever it receives)
APropGet == On("propget") /\ \E o \in LiveSlots : \E k \in KeySet(objs[o]) : \E ix \in IxForms(objs[o].n) \cup {[f |-> "all"]} :
    LET ob == objs[o]
        ret == IF ix.f = "all" THEN ob.col[k] ELSE LET T == IxRows(ix, ob.n) IN [j \in 1..Len(T) |-> ob.col[k][T[j]]] IN
    Do(Step("propget", [o |-> o, k |-> k, ix |-> ix], [vals |-> ret, scalar |-> ix.f \in {"int", "neg"}]), objs, syss)

\* per-type assignment
APropAtype == On("propatype") /\ \E o \in LiveSlots : \E k \in UserKeys : \E len \in 1..3 : \E c \in Codes :
    LET ob == objs[o]  vals == [t \in 1..len |-> (c + t) % 4]  args == [o |-> o, k |-> k, vals |-> vals] IN
    IF len < NTypes(ob) THEN Refuse("propatype", args, "ValueError")
    ELSE Do(Step("propatype", args, [ok |-> TRUE]), [objs EXCEPT ![o] = WithCol(ob, k, [i \in 1..ob.n |-> vals[ob.col["atype"][i]]])], syss)
APropAtypeOne == On("propatype1") /\ \E o \in LiveSlots : \E k \in UserKeys : \E t \in 1..3 : \E c \in Codes \ {0} :
    LET ob == objs[o]  args == [o |-> o, k |-> k, c |-> c, t |-> t]
        old == IF k \in KeySet(ob) THEN ob.col[k] ELSE [i \in 1..ob.n |-> 0] IN
    IF t > NTypes(ob) THEN Refuse("propatype1", args, "ValueError")
    ELSE Do(Step("propatype1", args, [ok |-> TRUE]),
            [objs EXCEPT ![o] = WithCol(ob, k, [i \in 1..ob.n |-> IF ob.col["atype"][i] = t THEN c ELSE old[i]])], syss)

\* extension: new object, operands unchanged
ExtendedN(ob, m) == [ob EXCEPT !.n = ob.n + m,
                               !.col = [k \in KeySet(ob) |-> ob.col[k] \o [j \in 1..m |-> IF k = "atype" THEN 1 ELSE 0]]]
Extended(a, b) ==
    LET newk == SelectSeq(b.keys, LAMBDA k : k \notin KeySet(a))  ks == a.keys \o newk IN
    [n |-> a.n + b.n, keys |-> ks,
     col |-> [k \in KeySet(a) \cup KeySet(b) |->
                (IF k \in KeySet(a) THEN a.col[k] ELSE [i \in 1..a.n |-> 0]) \o
                (IF k \in KeySet(b) THEN b.col[k] ELSE [i \in 1..b.n |-> 0])]]
AExtendN == On("extendn") /\ \E o \in LiveSlots : \E m \in 0..2 : \E d \in Dst :      \* m = 0: a copy with nothing added, still a NEW object
    objs[o].n + m <= MaxN + 2 /\ d # o /\
    Do(Step("extendn", [o |-> o, m |-> m, dst |-> d], [ok |-> TRUE]), [objs EXCEPT ![d] = ExtendedN(objs[o], m)], syss)
AExtend == On("extend") /\ \E o \in LiveSlots : \E p \in LiveSlots : \E d \in Dst :
    objs[o].n + objs[p].n <= MaxN + 2 /\ d # o /\ d # p /\
    Do(Step("extend", [o |-> o, p |-> p, dst |-> d], [ok |-> TRUE]), [objs EXCEPT ![d] = Extended(objs[o], objs[p])], syss)

\* sub-object extraction: Atoms[ix] for int/list/mask (copies) and prop(index=ix) for every form (documented new object)
Sub(ob, T) == [ob EXCEPT !.n = Len(T), !.col = [k \in KeySet(ob) |-> [j \in 1..Len(T) |-> ob.col[k][T[j]]]]]
AGetItem == On("getitem") /\ \E o \in LiveSlots : \E ix \in IxForms(objs[o].n) : \E via \in {"getitem", "propindex"} : \E d \in Dst :
    (via = "getitem" => ix.f # "slice") /\ d # o /\
    Do(Step("getitem", [o |-> o, ix |-> ix, via |-> via, dst |-> d], [ok |-> TRUE]), [objs EXCEPT ![d] = Sub(objs[o], IxRows(ix, objs[o].n))], syss)
ASetItem == On("setitem") /\ \E o \in LiveSlots : \E p \in LiveSlots : \E ix \in IxForms(objs[o].n) :
    LET ob == objs[o]  src == objs[p]  T == IxRows(ix, ob.n)  args == [o |-> o, p |-> p, ix |-> ix] IN
    o # p /\
    IF KeySet(ob) # KeySet(src) THEN Refuse("setitem", args, "ValueError")
    ELSE (src.n = Len(T) \/ src.n = 1) /\ (\A a \in 1..Len(T) : \A b \in 1..Len(T) : a # b => T[a] # T[b]) /\
         Do(Step("setitem", args, [ok |-> TRUE]),
            [objs EXCEPT ![o] = [ob EXCEPT !.col = [k \in KeySet(ob) |->
                [i \in 1..ob.n |-> IF \E j \in 1..Len(T) : T[j] = i
                                    THEN src.col[k][IF src.n = 1 THEN 1 ELSE CHOOSE j \in 1..Len(T) : T[j] = i] ELSE ob.col[k][i]]]]], syss)

\* ---- System actions ----------------------------------------------------------------------------------
LiveSys == {s \in 1..2 : syss[s].n >= 0}
Pad(seq, n) == IF Len(seq) >= n THEN seq ELSE seq \o [i \in 1..(n - Len(seq)) |-> "None"]
SNTypes(sy) == LET a == MaxSeq(sy.col["atype"]) IN IF Len(sy.symbols) > a THEN Len(sy.symbols) ELSE a
\* normal form after reading symbols/masses (the getters pad lazily)
Norm(sy) == LET s1 == Pad(sy.symbols, MaxSeq(sy.col["atype"]))  nt == IF Len(s1) > MaxSeq(sy.col["atype"]) THEN Len(s1) ELSE MaxSeq(sy.col["atype"]) IN
            [sy EXCEPT !.symbols = s1, !.masses = Pad(sy.masses, nt)]
SysOf(ob, symbols, pbc) == Norm([n |-> ob.n, keys |-> ob.keys, col |-> ob.col, symbols |-> symbols, masses |-> <<>>, pbc |-> pbc])
SymChoices == {<<>>, <<"Al">>, <<"Al", "Cu">>, <<"Al", "Cu", "Fe">>}
ASysNew == On("sysnew") /\ \E s \in 1..2 : \E o \in LiveSlots : \E sym \in SymChoices : \E pbc \in {<<TRUE,TRUE,TRUE>>, <<TRUE,FALSE,TRUE>>} :
    Do(Step("sysnew", [s |-> s, o |-> o, symbols |-> sym, pbc |-> pbc], [ok |-> TRUE]), objs, [syss EXCEPT ![s] = SysOf(objs[o], sym, pbc)])
ASetSymbols == On("setsymbols") /\ \E s \in LiveSys : \E sym \in SymChoices :
    Do(Step("setsymbols", [s |-> s, symbols |-> sym], [ok |-> TRUE]), objs, [syss EXCEPT ![s] = Norm([syss[s] EXCEPT !.symbols = sym])])
ASetMasses == On("setmasses") /\ \E s \in LiveSys : \E len \in 0..3 :
    LET sy == syss[s]  ms == [i \in 1..len |-> ToString(i)]  args == [s |-> s, masses |-> [i \in 1..len |-> i]] IN
    IF len > SNTypes(sy) THEN Refuse("setmasses", args, "ValueError")
    ELSE Do(Step("setmasses", args, [ok |-> TRUE]), objs, [syss EXCEPT ![s] = Norm([sy EXCEPT !.masses = ms])])
ASetPbc == On("setpbc") /\ \E s \in LiveSys : \E pbc \in {<<FALSE,TRUE,TRUE>>, <<TRUE,TRUE,FALSE>>} :
    Do(Step("setpbc", [s |-> s, pbc |-> pbc], [ok |-> TRUE]), objs, [syss EXCEPT ![s] = [syss[s] EXCEPT !.pbc = pbc]])
\* write atom types of a system directly (changes the number of types the symbol / mass lists must cover)
ASysAtype == On("sysatype") /\ \E s \in LiveSys : \E t \in 1..3 : \E i \in 1..MaxN :
    i <= syss[s].n /\
    Do(Step("sysatype", [s |-> s, i |-> i - 1, t |-> t], [ok |-> TRUE]), objs,
       [syss EXCEPT ![s] = Norm([syss[s] EXCEPT !.col = [k \in KeySet(syss[s]) |-> IF k = "atype" THEN [syss[s].col[k] EXCEPT ![i] = t] ELSE syss[s].col[k]]])])
\* atoms_ix[ix] -> new System sharing box, copying pbc and symbols, dropping masses
ASysIx == On("sysix") /\ \E s \in LiveSys : \E d \in (1..2) \ {s} : \E ix \in IxForms(syss[s].n) :
    ix.f # "slice" /\
    LET sy == syss[s]  sub == Sub([n |-> sy.n, keys |-> sy.keys, col |-> sy.col], IxRows(ix, sy.n)) IN
    Do(Step("sysix", [s |-> s, ix |-> ix, dst |-> d], [ok |-> TRUE]), objs, [syss EXCEPT ![d] = SysOf(sub, sy.symbols, sy.pbc)])
\* atoms_extend(Atoms | int [, scale] [, symbols]) -> new System; operand untouched
ASysExtend == On("sysextend") /\ \E s \in LiveSys : \E d \in (1..2) \ {s} : \E o \in LiveSlots : \E scale \in BOOLEAN : \E sym \in {<<"None">>, <<"Ni", "Ti", "V">>} :
    syss[s].n + objs[o].n <= MaxN + 2 /\
    LET sy == syss[s]  ext == Extended([n |-> sy.n, keys |-> sy.keys, col |-> sy.col], objs[o])
        symbols == IF sym = <<"None">> THEN sy.symbols ELSE sym IN
    Do(Step("sysextend", [s |-> s, o |-> o, scale |-> scale, symbols |-> sym, dst |-> d], [ok |-> TRUE]), objs,
       [syss EXCEPT ![d] = SysOf(ext, symbols, sy.pbc)])
ASysExtendN == On("sysextendn") /\ \E s \in LiveSys : \E d \in (1..2) \ {s} : \E m \in 0..2 :
    syss[s].n + m <= MaxN + 2 /\
    LET sy == syss[s]  ext == ExtendedN([n |-> sy.n, keys |-> sy.keys, col |-> sy.col], m) IN
    Do(Step("sysextendn", [s |-> s, m |-> m, dst |-> d], [ok |-> TRUE]), objs, [syss EXCEPT ![d] = SysOf(ext, sy.symbols, sy.pbc)])
\* atoms_prop(key, scale=True) read -> copy
ASysPropGet == On("syspropget") /\ \E s \in LiveSys : \E k \in {"pos"} : \E scale \in BOOLEAN :
    Do(Step("syspropget", [s |-> s, k |-> k, scale |-> scale], [vals |-> syss[s].col[k]]), objs, syss)

AInit == objs = [o \in 1..NSlots |-> NoObj] /\ syss = [s \in 1..2 |-> NoSys] /\ ah = <<>>
\* populated start (exhaustive short histories over a non-trivial state); the driver builds it from the logged state
PopObjs == [o \in 1..NSlots |-> IF o = 1 THEN NewObj(3, <<"q", "vel">>, 0) ELSE IF o = 2 THEN NewObj(2, <<"q">>, 1) ELSE NoObj]
PopSyss == [s \in 1..2 |-> IF s = 1 THEN SysOf(NewObj(3, <<"q">>, 0), <<"Al">>, <<TRUE,TRUE,TRUE>>) ELSE NoSys]
AInitPop == objs = PopObjs /\ syss = PopSyss /\
            ah = << [act |-> "init", args |-> [x |-> 0], ret |-> [ok |-> TRUE], objs |-> PopObjs, syss |-> PopSyss] >>
ANext == /\ Len(ah) < ADepth
         /\ (ANew \/ AViewSet \/ APropSet \/ APropGet \/ APropAtype \/ APropAtypeOne \/ AExtendN \/ AExtend \/ AGetItem \/ ASetItem
             \/ ASysNew \/ ASetSymbols \/ ASetMasses \/ ASetPbc \/ ASysAtype \/ ASysIx \/ ASysExtend \/ ASysExtendN \/ ASysPropGet)

\* ---- invariants of the abstract model (the property, stated on the model) ---------------------------------
Rectangular == \A o \in LiveSlots : \A k \in KeySet(objs[o]) : Len(objs[o].col[k]) = objs[o].n
SysRectangular == \A s \in LiveSys : \A k \in KeySet(syss[s]) : Len(syss[s].col[k]) = syss[s].n
AtypePositive == (\A o \in LiveSlots : MinSeq(objs[o].col["atype"]) >= 1) /\ (\A s \in LiveSys : MinSeq(syss[s].col["atype"]) >= 1)
ListsCoverTypes == \A s \in LiveSys : Len(syss[s].symbols) >= MaxSeq(syss[s].col["atype"]) /\ Len(syss[s].masses) >= MaxSeq(syss[s].col["atype"])
KeysConsistent == \A o \in LiveSlots : Len(objs[o].keys) = Cardinality(KeySet(objs[o])) /\ DOMAIN objs[o].col = KeySet(objs[o])
AEmit == Len(ah) = ADepth => PrintT("@@CASE " \o ToJson(ah))
====
