---- MODULE MC_SurfaceBasis ----
EXTENDS SurfaceBasis
NamesQ == {"cubic", "tetragonal", "orthorhombic", "hexagonal", "monoclinic", "triclinic", "rhombohedral"}
IdxQ == -3..3
IdxQ2 == -2..2
IdxT == -5..5
Cuts == 1..3
====
