---- MODULE MC_PointDefect ----
EXTENDS PointDefect
\* grid denominator 8
A(p, t, q, i) == [p |-> p, t |-> t, q |-> q, oid |-> i]
Cell1 == [v |-> <<<<32,0,0>>, <<8,24,0>>, <<0,8,40>>>>, o |-> <<8,-16,4>>]
Sys1 == [cell |-> Cell1, pbc |-> <<TRUE,TRUE,TRUE>>,
         atoms |-> << A(<<8,-16,4>>, 1, 1, 0), A(<<28,-2,24>>, 2, 2, 1), A(<<24,-4,4>>, 1, 3, 2), A(<<12,0,34>>, 2, 0, 3) >>]
Cell2 == [v |-> <<<<24,0,0>>, <<0,24,0>>, <<0,0,24>>>>, o |-> <<0,0,0>>]
Sys2 == [cell |-> Cell2, pbc |-> <<TRUE,FALSE,TRUE>>,
         atoms |-> << A(<<0,0,0>>, 1, 2, 0), A(<<12,12,0>>, 1, 1, 1), A(<<12,0,12>>, 2, 0, 2) >>]
Systems == {Sys1, Sys2}
Dbs == << <<2,2,0>>, <<0,-3,1>> >>
RDbs == << <<1,1,0>>, <<0,-1,2>> >>
Ints == { <<2,2,2>>, <<4,0,4>>, <<0,0,0>>, <<4,4,0>> }
AllKinds == {"id", "pos", "image", "relpos"}
IdOnly == {"id"}
====
