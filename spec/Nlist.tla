---- MODULE Nlist ----
(***************************************************************************)
(* C03 -- neighbour list.                                                  *)
(*                                                                         *)
(* Property layer:  Expected(i) = { j # i : Min27(pos[j]-pos[i]) < cut^2 } *)
(* Algorithm layer: written like atomman/core/nlist.pyx -- orthogonal      *)
(* superbox around the 8 cell corners padded by 1.01 cut, bins of size     *)
(* cut, ghost images (shifts -1,0,1 per periodic direction) strictly       *)
(* inside the superbox, sweep over a set of bins and the 13 "lower"        *)
(* neighbour bins.  Lengths of the algorithm layer are multiplied by 100   *)
(* so that 1.01 cut is an integer.  SweepAll = FALSE is the pinned code    *)
(* (sweeps only the bins that hold REAL atoms), SweepAll = TRUE sweeps     *)
(* every occupied bin.  TLC checks AlgPairs = ExpectedPairs.               *)
(***************************************************************************)
EXTENDS Lattice, Json

CONSTANTS NCells,     \* set of cells
          Coords,     \* candidate coordinates (relative numerators over RelDen) per axis, per atom
          RelDen,
          Cuts,       \* candidate cutoffs (same integer unit as the cell)
          NAtoms,
          SweepAll,   \* BOOLEAN
          EmitAll     \* BOOLEAN: emit one case per state (otherwise only where Alg # Expected)

VARIABLES ncell, npbc, npos, ncut, nphase
nvars == <<ncell, npbc, npos, ncut, nphase>>

-----------------------------------------------------------------------------
\* property layer
D2(c, pb, P, i, j) == Min27(c, pb, Sub(P[j], P[i]))
ExpectedPairs(c, pb, P, cut) ==
    { <<i,j>> \in (1..Len(P)) \X (1..Len(P)) : i # j /\ D2(c,pb,P,i,j) < cut*cut }

-----------------------------------------------------------------------------
\* algorithm layer (units / 100)
Corners(c) == { Add(c.o, VecMat(<<x,y,z>>, c.v)) : x \in 0..1, y \in 0..1, z \in 0..1 }
SuperMin(c, cut) == [k \in 1..3 |-> 100 * MinOf({q[k] : q \in Corners(c)}) - 101*cut]
SuperMax(c, cut) == [k \in 1..3 |-> 100 * MaxOf({q[k] : q \in Corners(c)}) + 101*cut]
BinOfS(sm, cut, p) ==
    <<FloorDiv(100*p[1] - sm[1], 100*cut), FloorDiv(100*p[2] - sm[2], 100*cut), FloorDiv(100*p[3] - sm[3], 100*cut)>>
InSuperS(lo, hi, p) == \A k \in 1..3 : lo[k] < 100*p[k] /\ 100*p[k] < hi[k]
\* entries: real atoms and ghosts, each [idx, bin, real]
Entries(c, pb, P, cut) ==
    LET lo == SuperMin(c,cut)  hi == SuperMax(c,cut)
        img == { <<f[1], Add(P[f[1]], VecMat(f[2], c.v))>> : f \in (1..Len(P)) \X (Shifts(pb,1) \ {Zero3}) }
    IN
    { [idx |-> i, bin |-> BinOfS(lo,cut,P[i]), real |-> TRUE] : i \in 1..Len(P) } \cup
    { [idx |-> e[1], bin |-> BinOfS(lo,cut,e[2]), real |-> FALSE] : e \in { g \in img : InSuperS(lo, hi, g[2]) } }
LowerOrSame(b2, b1) ==
    LET d == Sub(b2, b1) IN
    /\ \A k \in 1..3 : d[k] \in -1..1
    /\ \/ d = Zero3
       \/ d[3] < 0
       \/ (d[3] = 0 /\ d[2] < 0)
       \/ (d[3] = 0 /\ d[2] = 0 /\ d[1] < 0)
AlgPairs(c, pb, P, cut, sweepall) ==
    LET E == Entries(c,pb,P,cut)
        n == Len(P)
        near == [i \in 1..n |-> [j \in 1..n |-> i # j /\ D2(c,pb,P,i,j) < cut*cut]]
        swept == IF sweepall THEN {e.bin : e \in E} ELSE {e.bin : e \in {f \in E : f.real}}
        SE == {f \in E : f.bin \in swept}
        hit(e1,e2) == near[e1.idx][e2.idx] /\ LowerOrSame(e2.bin, e1.bin)
        hits == { q \in SE \X E : hit(q[1], q[2]) }
    IN UNION { {<<q[1].idx, q[2].idx>>, <<q[2].idx, q[1].idx>>} : q \in hits }

-----------------------------------------------------------------------------
\* model: choose a cell, periodicity, cutoff and atom positions from the candidate grids
Bools == {TRUE, FALSE}
PtOf(c, r) == Add(c.o, <<(r[1]*c.v[1][1] + r[2]*c.v[2][1] + r[3]*c.v[3][1]) \div RelDen,
                        (r[1]*c.v[1][2] + r[2]*c.v[2][2] + r[3]*c.v[3][2]) \div RelDen,
                        (r[1]*c.v[1][3] + r[2]*c.v[2][3] + r[3]*c.v[3][3]) \div RelDen>>)
NInit == /\ ncell \in NCells
         /\ npbc \in {<<x,y,z>> : x \in Bools, y \in Bools, z \in Bools}
         /\ ncut \in Cuts
         /\ npos = <<>> /\ nphase = 0
AddAtom == /\ Len(npos) < NAtoms
           /\ \E r \in Coords[Len(npos)+1][1] \X Coords[Len(npos)+1][2] \X Coords[Len(npos)+1][3] :
                 \* the grid point nearest below the relative coordinate; for a tilted cell the truncation can leave the cell, and the
                 \* property only speaks about atoms inside it
                 InsideIncl(ncell, PtOf(ncell, r)) /\ npos' = Append(npos, PtOf(ncell, r))
           /\ nphase' = IF Len(npos) + 1 = NAtoms THEN 1 ELSE 0
           /\ UNCHANGED <<ncell, npbc, ncut>>
NNext == AddAtom

AlgCorrect == nphase = 1 => AlgPairs(ncell, npbc, npos, ncut, SweepAll) = ExpectedPairs(ncell, npbc, npos, ncut)
\* the symmetric / irreflexive shape of the expected relation (design-level sanity)
ExpectedSymmetric == nphase = 1 =>
    LET X == ExpectedPairs(ncell, npbc, npos, ncut) IN \A pr \in X : <<pr[2], pr[1]>> \in X /\ pr[1] # pr[2]
AllInside == nphase = 1 => \A i \in 1..Len(npos) : InsideIncl(ncell, npos[i])

NEmit == nphase = 1 =>
    LET X == ExpectedPairs(ncell, npbc, npos, ncut)
        A == AlgPairs(ncell, npbc, npos, ncut, FALSE)
    IN (EmitAll \/ A # X) =>
       PrintT("@@CASE " \o ToJson([v |-> ncell.v, o |-> ncell.o, pbc |-> npbc, pos |-> npos, cut |-> ncut,
                                   expect |-> [i \in 1..Len(npos) |-> {j \in 1..Len(npos) : <<i,j>> \in X}],
                                   lost |-> A # X]))

-----------------------------------------------------------------------------
\* conformance: one recorded neighbour list (0-based ids in r.nl are shifted by the driver to 1-based)
RECURSIVE StrictAsc(_)
StrictAsc(s) == Len(s) < 2 \/ (s[1] < s[2] /\ StrictAsc(Tail(s)))
VerdictNlist(r) ==
    LET c == [v |-> r.v, o |-> r.o]  n == Len(r.pos)  P == r.pos IN
    IF Len(r.nl) # n \/ Len(r.coord) # n THEN "wrong_number_of_rows"
    ELSE IF \E i \in 1..n : r.coord[i] # Len(r.nl[i]) THEN "coord_differs_from_list_length"
    ELSE IF \E i \in 1..n : ~StrictAsc(r.nl[i]) THEN "not_sorted_or_duplicate"
    ELSE IF \E i \in 1..n : \E k \in 1..Len(r.nl[i]) : r.nl[i][k] = i \/ r.nl[i][k] < 1 \/ r.nl[i][k] > n
         THEN "self_or_out_of_range_entry"
    ELSE IF \E i \in 1..n : \E k \in 1..Len(r.nl[i]) : i \notin Range(r.nl[r.nl[i][k]]) THEN "not_symmetric"
    ELSE IF \E i \in 1..n : \E j \in (i+1)..n :
              (j \in Range(r.nl[i])) /\ ~(D2(c, r.pbc, P, i, j) < r.cut2) THEN "lists_pair_beyond_cutoff"
    ELSE IF \E i \in 1..n : \E j \in (i+1)..n :
              (j \notin Range(r.nl[i])) /\ (D2(c, r.pbc, P, i, j) < r.cut2) THEN "misses_pair_within_cutoff"
    ELSE "ok"
====
