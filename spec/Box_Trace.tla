---- MODULE Box_Trace ----
EXTENDS Box, IOUtils
Tr == ndJsonDeserialize(IOEnv.TRACE_FILE)
VARIABLE l
TInit == l = 1 /\ bcell = 0 /\ bcache = 0 /\ bh = 0
TNext == l <= Len(Tr) /\ l' = l + 1 /\ UNCHANGED bvars
Check == l <= Len(Tr) =>
           LET w == VerdictBox(Tr[l]) IN (w = "ok" \/ PrintT("@@BAD " \o ToJson([l |-> l, clause |-> w])))
Done == (l = Len(Tr) + 1) => PrintT("@@DONE " \o ToString(Len(Tr)))
====
