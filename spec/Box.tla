---- MODULE Box ----
(***************************************************************************)
(* C01 -- one cell, many parameter sets; coordinate maps; cached dual.     *)
(*                                                                         *)
(* State machine: a Box object = current cell (integer rows over the grid  *)
(* denominator, origin) + the cell its cached reciprocal vectors were      *)
(* computed for.  One action per public call.  Histories are emitted as    *)
(* implementation cases (S->C).  Verdict* operators decide recorded calls  *)
(* (C->S).                                                                 *)
(***************************************************************************)
EXTENDS Lattice, Json

CONSTANTS BCells,     \* cells used by the history model
          BOrigins,   \* origins for SetOrigin
          BPoints,    \* relative numerators (over BG) of query points
          BG,
          BDepth,
          StaleCache  \* BOOLEAN: negative model -- the vects setter forgets to drop the cache

VARIABLES bcell, bcache, bh
bvars == <<bcell, bcache, bh>>

NoCache == <<>>
RelToCart(c, s, g) == Add(c.o, <<(s[1]*c.v[1][1] + s[2]*c.v[2][1] + s[3]*c.v[3][1]) \div g,
                                 (s[1]*c.v[1][2] + s[2]*c.v[2][2] + s[3]*c.v[3][2]) \div g,
                                 (s[1]*c.v[1][3] + s[2]*c.v[2][3] + s[3]*c.v[3][3]) \div g>>)
RecipNum(M) == Transp(Adj3(M))        \* reciprocal_vects = RecipNum / Det3  (inv(V) transposed)
\* what the implementation returns when its cache belongs to matrix K (= the current one iff coherent)
C2RVia(K, c, p) == VecMat(Sub(p, c.o), Adj3(K))

\* Face points are decided only where every reasonable float implementation is exact: axis-aligned cells with
\* power-of-two edge lengths (the code normalises plane normals, so a tilted cell's face test carries rounding;
\* the property exempts points closer than the rounding bound to a face).
RECURSIVE Pow2(_)
Pow2(n) == n = 1 \/ (n > 1 /\ n % 2 = 0 /\ Pow2(n \div 2))
ExactFaces(M) == \A i \in 1..3 : Cardinality({j \in 1..3 : M[i][j] # 0}) = 1 /\ \A j \in 1..3 : M[i][j] = 0 \/ Pow2(Abs(M[i][j]))
OnFace(c, p) == InsideIncl(c, p) /\ ~InsideExcl(c, p)
FaceDecisive(c, p) == ~OnFace(c, p) \/ ExactFaces(c.v)

Step(act, args, expect) == bh' = Append(bh, [act |-> act, args |-> args, expect |-> expect])

BInit == bcell = [v |-> MScale(BG, Ident3), o |-> Zero3] /\ bcache = NoCache /\ bh = <<>>
SetCell(name, c) == /\ bcell' = c
                    /\ bcache' = IF StaleCache THEN bcache ELSE NoCache
                    /\ Step(name, [v |-> c.v, o |-> c.o], [v |-> c.v, o |-> c.o])
BSetVects   == \E c \in BCells : SetCell("set_vects", c)
BSetVectors == \E c \in BCells : SetCell("set_vectors", c)
BSetLengths == \E c \in {d \in BCells : IsLammps(d.v)} : SetCell("set_lengths", c)
BSetHiLos   == \E c \in {d \in BCells : IsLammps(d.v)} : SetCell("set_hi_los", c)
BSetAbc     == \E c \in {d \in BCells : IsLammps(d.v)} : SetCell("set_abc", c)
BSetOrigin  == \E o \in BOrigins : /\ bcell' = [bcell EXCEPT !.o = o] /\ UNCHANGED bcache
                                   /\ Step("set_origin", [o |-> o], [v |-> bcell.v, o |-> o])
Filled == IF bcache = NoCache THEN bcell.v ELSE bcache
BRecip == /\ bcache' = Filled /\ UNCHANGED bcell
          /\ Step("recip", [x |-> 0], [num |-> RecipNum(Filled), det |-> Det3(Filled)])
BC2R == \E s \in BPoints : LET p == RelToCart(bcell, s, BG) IN
          /\ bcache' = Filled /\ UNCHANGED bcell
          /\ Step("c2r", [p |-> p], [num |-> C2RVia(Filled, bcell, p), det |-> Det3(Filled)])
BR2C == \E s \in BPoints : /\ UNCHANGED <<bcell, bcache>>
          /\ Step("r2c", [s |-> s, g |-> BG], [p |-> RelToCart(bcell, s, BG)])
BInside == \E s \in BPoints : \E incl \in BOOLEAN : LET p == RelToCart(bcell, s, BG) IN
          /\ UNCHANGED <<bcell, bcache>>
          /\ Step("inside", [p |-> p, incl |-> incl],
                  [inside |-> IF incl THEN InsideIncl(bcell, p) ELSE InsideExcl(bcell, p),
                   decisive |-> FaceDecisive(bcell, p)])
BReadLammps == /\ IsLammps(bcell.v) /\ UNCHANGED <<bcell, bcache>>
               /\ Step("read_lammps", [x |-> 0],
                       [lx |-> bcell.v[1][1], ly |-> bcell.v[2][2], lz |-> bcell.v[3][3],
                        xy |-> bcell.v[2][1], xz |-> bcell.v[3][1], yz |-> bcell.v[3][2],
                        xlo |-> bcell.o[1], ylo |-> bcell.o[2], zlo |-> bcell.o[3],
                        xhi |-> bcell.o[1] + bcell.v[1][1], yhi |-> bcell.o[2] + bcell.v[2][2],
                        zhi |-> bcell.o[3] + bcell.v[3][3]])
BReadLammpsRefused == /\ ~IsLammps(bcell.v) /\ UNCHANGED <<bcell, bcache>>
                      /\ Step("read_lammps", [x |-> 0], [refused |-> "AssertionError"])
BNext == /\ Len(bh) < BDepth
         /\ (BSetVects \/ BSetVectors \/ BSetLengths \/ BSetHiLos \/ BSetAbc \/ BSetOrigin \/ BRecip \/ BC2R \/ BR2C
             \/ BInside \/ BReadLammps \/ BReadLammpsRefused)

\* the cached dual always belongs to the current vectors
CacheCoherent == bcache = NoCache \/ bcache = bcell.v
\* design-level facts about the operators the code must agree with (checked on every reachable cell)
DualityOK == LET M == bcell.v IN MatMul(M, Transp(RecipNum(M))) = MScale(Det3(M), Ident3)
RoundTripOK == \A s \in BPoints : LET p == RelToCart(bcell, s, BG) IN
                 /\ RelNum(bcell, p) = Scale(Det3(bcell.v) \div BG, s)     \* c2r(r2c(s)) = s
                 /\ (InsideIncl(bcell, p) <=> \A i \in 1..3 : 0 <= s[i] /\ s[i] <= BG)
                 /\ (InsideExcl(bcell, p) <=> \A i \in 1..3 : 0 < s[i] /\ s[i] < BG)
BEmit == Len(bh) = BDepth => PrintT("@@CASE " \o ToJson(bh))

-----------------------------------------------------------------------------
\* Conformance: recorded calls.  All numbers are integers over the record's grid denominator r.q.
RC(r) == [v |-> r.v, o |-> r.o]
VerdictC2R(r) ==       \* r.rn = rint(result * |Det|) row by row, r.ongrid
    IF ~r.ongrid THEN "c2r_result_off_grid"
    ELSE IF \E i \in 1..Len(r.p) : r.rn[i] # Scale(Sign(Det3(r.v)), RelNum(RC(r), r.p[i])) THEN "c2r_wrong"
    ELSE "ok"
VerdictR2C(r) ==       \* r.s relative numerators over r.g ; r.pn = rint(result * q * g)
    IF ~r.ongrid THEN "r2c_result_off_grid"
    ELSE IF \E i \in 1..Len(r.s) : r.pn[i] # Add(Scale(r.g, r.o), VecMat(r.s[i], r.v)) THEN "r2c_wrong"
    ELSE "ok"
VerdictInside(r) ==
    IF \E i \in 1..Len(r.p) : FaceDecisive(RC(r), r.p[i]) /\
         r.res[i] # (IF r.incl THEN InsideIncl(RC(r), r.p[i]) ELSE InsideExcl(RC(r), r.p[i]))
    THEN (IF r.incl THEN "inside_inclusive_wrong" ELSE "inside_exclusive_wrong")
    ELSE "ok"
VerdictOutside(r) ==   \* Shape.outside(p, inclusive) = not inside(p, not inclusive)
    IF \E i \in 1..Len(r.p) : FaceDecisive(RC(r), r.p[i]) /\
         r.res[i] # ~(IF r.incl THEN InsideExcl(RC(r), r.p[i]) ELSE InsideIncl(RC(r), r.p[i]))
    THEN "outside_wrong" ELSE "ok"
VerdictRecip(r) ==     \* r.rn = rint(reciprocal_vects * Det)
    IF ~r.ongrid THEN "recip_off_grid"
    ELSE IF r.rn # RecipNum(r.v) THEN "reciprocal_not_dual" ELSE "ok"
VerdictMetric(r) ==    \* r.gram = rint(q^2 * (a^2, b^2, c^2, bc cos alpha, ac cos beta, ab cos gamma)), r.vol = rint(q^3 volume)
    IF ~r.ongrid THEN "metric_off_grid"
    ELSE IF r.gram # Gram(r.v) THEN "lengths_or_angles_not_those_of_the_vectors"
    ELSE IF r.vol # Abs(Det3(r.v)) THEN "volume_wrong" ELSE "ok"
VerdictLammps(r) ==    \* r.l = <<lx,ly,lz,xy,xz,yz>>, r.lo, r.hi of a LAMMPS-oriented cell; or refused
    IF ~IsLammps(r.v) THEN (IF r.refused THEN "ok" ELSE "lammps_parameters_of_non_lammps_cell_not_refused")
    ELSE IF r.refused THEN "lammps_parameters_refused_for_lammps_cell"
    ELSE IF r.l # <<r.v[1][1], r.v[2][2], r.v[3][3], r.v[2][1], r.v[3][1], r.v[3][2]>> THEN "lengths_tilts_wrong"
    ELSE IF r.lo # r.o THEN "lo_wrong"
    ELSE IF r.hi # <<r.o[1] + r.v[1][1], r.o[2] + r.v[2][2], r.o[3] + r.v[3][3]>> THEN "hi_wrong"
    ELSE "ok"
\* rebuilt cell (through parameter set r.via) : r.v2, r.o2 rounded onto the grid when r.exact, Gram otherwise
VerdictRebuild(r) ==
    IF IsLammps(r.v) THEN
        (IF ~r.ongrid THEN "rebuilt_cell_off_grid"
         ELSE IF r.v2 # r.v THEN "rebuilt_vectors_differ"
         ELSE IF r.o2 # r.o THEN "rebuilt_origin_differs" ELSE "ok")
    ELSE (IF ~r.ongrid THEN "rebuilt_metric_off_grid"
          ELSE IF r.gram2 # Gram(r.v) THEN "rebuilt_cell_not_congruent"
          ELSE IF ~r.lammps2 THEN "rebuilt_cell_not_lammps_oriented"
          ELSE IF r.o2 # r.o THEN "rebuilt_origin_differs" ELSE "ok")
VerdictBox(r) ==
    CASE r.ev = "c2r" -> VerdictC2R(r)
      [] r.ev = "r2c" -> VerdictR2C(r)
      [] r.ev = "inside" -> VerdictInside(r)
      [] r.ev = "outside" -> VerdictOutside(r)
      [] r.ev = "recip" -> VerdictRecip(r)
      [] r.ev = "metric" -> VerdictMetric(r)
      [] r.ev = "lammps" -> VerdictLammps(r)
      [] r.ev = "rebuild" -> VerdictRebuild(r)
      [] OTHER -> "unknown_event"
====
