---- MODULE Miller ----
(***************************************************************************)
(* C16 -- Miller / Miller-Bravais index algebra, plane normals, centring   *)
(* conversions, index strings and crystal-family identification.           *)
(*                                                                         *)
(* The operators are DEFINITIONS of what the conversions mean (not a       *)
(* transcription of atomman/tools/miller.py):                              *)
(*  - a 4-index vector [uvtw] in a hexagonal cell is u a1 + v a2 + t a3 +  *)
(*    w c with a3 = -(a1+a2); 3<->4 conversions keep that Cartesian vector *)
(*  - a plane (hkil) has i = -(h+k); its normal is the reciprocal-lattice  *)
(*    vector h a* + k b* + l c*                                            *)
(*  - a primitive setting is a basis of the centred lattice with           *)
(*    determinant 1/n, n = lattice points per conventional cell            *)
(***************************************************************************)
EXTENDS Lattice, Json

CONSTANTS IdxLo, IdxHi,        \* index bound for the exhaustive generators
          MCells,              \* integer cells (rows)
          Mode                 \* which generator the model runs: "vec", "plane", "str", "family"

VARIABLES mcase, mphase
mvars == <<mcase, mphase>>

Idx == IdxLo..IdxHi
Triples == (Idx \X Idx \X Idx) \ {Zero3}

\* ---- 3 <-> 4 index vectors ------------------------------------------------------------
Cart4(x, M) == Add(Add(Scale(x[1], M[1]), Scale(x[2], M[2])),
                   Add(Scale(x[3], Neg(Add(M[1], M[2]))), Scale(x[4], M[3])))
\* [uvtw] * 3 for a 3-index vector (entries may be thirds)
Vec3to4x3(y) == <<2*y[1] - y[2], 2*y[2] - y[1], -(y[1] + y[2]), 3*y[3]>>
Vec4to3(x)   == <<x[1] - x[3], x[2] - x[3], x[4]>>
Plane3to4(p) == <<p[1], p[2], -(p[1] + p[2]), p[3]>>
Plane4to3(p) == <<p[1], p[2], p[4]>>
\* design-level: the conversions are mutually inverse and keep the Cartesian vector (any cell M)
VecRoundTrip(y, M) ==
    /\ Vec4to3(Vec3to4x3(y)) = Scale(3, y)
    /\ Cart4(Vec3to4x3(y), M) = Scale(3, VecMat(y, M))
    /\ Vec3to4x3(y)[1] + Vec3to4x3(y)[2] + Vec3to4x3(y)[3] = 0
PlaneRoundTrip(p) == Plane4to3(Plane3to4(p)) = p /\ Plane3to4(p)[1] + Plane3to4(p)[2] + Plane3to4(p)[3] = 0

\* ---- plane normal = reciprocal-lattice vector --------------------------------------------
RecipNum(M) == Transp(Adj3(M))                     \* rows a*, b*, c* times Det
NormalNum(p, M) == Scale(Sign(Det3(M)), VecMat(p, RecipNum(M)))   \* direction of h a* + k b* + l c*
\* zone law: a lattice vector [uvw] lies in the plane iff hu + kv + lw = 0 iff it is perpendicular to the normal
ZoneLawOK(p, M) == \A t \in Triples : (Dot(p, t) = 0) <=> (Dot(NormalNum(p, M), VecMat(t, M)) = 0)

\* ---- reduce ---------------------------------------------------------------------------------
Reduce3(v) == LET g == Gcd3(v) IN <<v[1] \div g, v[2] \div g, v[3] \div g>>

\* ---- centring -------------------------------------------------------------------------------
\* translations of each centring in sixths of the conventional cell; n = number of lattice points
Cent == [ p  |-> {<<0,0,0>>},
          a  |-> {<<0,0,0>>, <<0,3,3>>},
          b  |-> {<<0,0,0>>, <<3,0,3>>},
          c  |-> {<<0,0,0>>, <<3,3,0>>},
          i  |-> {<<0,0,0>>, <<3,3,3>>},
          f  |-> {<<0,0,0>>, <<0,3,3>>, <<3,0,3>>, <<3,3,0>>},
          t1 |-> {<<0,0,0>>, <<4,2,2>>, <<2,4,4>>},
          t2 |-> {<<0,0,0>>, <<2,4,2>>, <<4,2,4>>} ]
Mod6(v) == <<v[1] % 6, v[2] % 6, v[3] % 6>>
\* P6 = 6 * (matrix taking primitive indices to conventional indices), C = matrix taking conventional to primitive
VerdictCentring(r) ==
    LET n == Cardinality(Cent[r.setting]) IN
    IF ~r.ongrid THEN "centring_matrix_off_grid"
    ELSE IF MatMul(r.c2p, r.p2c6) # MScale(6, Ident3) \/ MatMul(r.p2c6, r.c2p) # MScale(6, Ident3) THEN "conversions_not_mutually_inverse"
    ELSE IF Abs(Det3(r.c2p)) # n THEN "conventional_to_primitive_determinant_is_not_the_number_of_lattice_points"
    ELSE IF Abs(Det3(r.p2c6)) * n # 216 THEN "primitive_to_conventional_determinant_inconsistent"
    ELSE IF \E k \in 1..3 : Mod6(r.p2c6[k]) \notin Cent[r.setting] THEN "primitive_vector_is_not_a_lattice_vector_of_the_centring"
    ELSE "ok"

\* ---- model: generators -----------------------------------------------------------------------
Brackets == {<<"[", "]">>, <<"(", ")">>, <<"<", ">">>, <<"{", "}">>}
Fracs == {<<0,0>>, <<1,2>>, <<1,3>>, <<-1,6>>, <<2,1>>}          \* <<0,0>> = no leading fraction
IStr(n) == ToString(n)
StrOf(fr, br, e) ==
    (IF fr = <<0,0>> THEN "" ELSE IStr(fr[1]) \o "/" \o IStr(fr[2]) \o " ") \o br[1]
    \o IStr(e[1]) \o " " \o IStr(e[2]) \o " " \o IStr(e[3]) \o (IF Len(e) = 4 THEN " " \o IStr(e[4]) ELSE "") \o br[2]

\* crystal families: abstract cell = length classes and angle symbols; generic = distinct classes/symbols
Families == {"cubic", "hexagonal", "tetragonal", "rhombohedral", "orthorhombic", "monoclinic", "triclinic"}
Construct(f) ==
    CASE f = "cubic"        -> [l |-> <<1,1,1>>, ang |-> <<"90","90","90">>]
      [] f = "hexagonal"    -> [l |-> <<1,1,2>>, ang |-> <<"90","90","120">>]
      [] f = "tetragonal"   -> [l |-> <<1,1,2>>, ang |-> <<"90","90","90">>]
      [] f = "rhombohedral" -> [l |-> <<1,1,1>>, ang |-> <<"x","x","x">>]
      [] f = "orthorhombic" -> [l |-> <<1,2,3>>, ang |-> <<"90","90","90">>]
      [] f = "monoclinic"   -> [l |-> <<1,2,3>>, ang |-> <<"90","x","90">>]
      [] f = "triclinic"    -> [l |-> <<1,2,3>>, ang |-> <<"x","y","z">>]
\* the crystallographic definition (independent of how the cell was made)
FamilyOf(c) ==
    LET l == c.l  a == c.ang  all90 == a = <<"90","90","90">> IN
    IF l[1] = l[2] /\ l[2] = l[3] /\ all90 THEN "cubic"
    ELSE IF l[1] = l[2] /\ a = <<"90","90","120">> THEN "hexagonal"
    ELSE IF l[1] = l[2] /\ l[2] # l[3] /\ all90 THEN "tetragonal"
    ELSE IF l[1] = l[2] /\ l[2] = l[3] /\ a[1] = a[2] /\ a[2] = a[3] /\ a[1] \notin {"90"} THEN "rhombohedral"
    ELSE IF all90 THEN "orthorhombic"
    ELSE IF a[1] = "90" /\ a[3] = "90" /\ a[2] # "90" THEN "monoclinic"
    ELSE "triclinic"
FamilyIdentified == \A f \in Families : FamilyOf(Construct(f)) = f

MInit == mphase = 0 /\ mcase = <<>>
GenVec   == Mode = "vec" /\ \E y \in Triples : \E M \in MCells :
              mcase' = [kind |-> "vec", y |-> y, v |-> M, x3 |-> Vec3to4x3(y), cart |-> VecMat(y, M), red |-> Reduce3(y),
                        ok |-> VecRoundTrip(y, M)]
GenPlane == Mode = "plane" /\ \E p \in Triples : \E M \in MCells :
              mcase' = [kind |-> "plane", p |-> p, v |-> M, p4 |-> Plane3to4(p), n |-> NormalNum(p, M),
                        ok |-> PlaneRoundTrip(p) /\ ZoneLawOK(p, M)]
GenStr   == Mode = "str" /\ \E fr \in Fracs : \E br \in Brackets : \E e \in (Triples \cup {<<1,1,-2,0>>, <<0,0,0,1>>, <<-1,2,-1,3>>}) :
              mcase' = [kind |-> "str", s |-> StrOf(fr, br, e), num |-> IF fr = <<0,0>> THEN 1 ELSE fr[1],
                        den |-> IF fr = <<0,0>> THEN 1 ELSE fr[2], e |-> e, ok |-> TRUE]
GenFam   == Mode = "family" /\ \E f \in Families :
              mcase' = [kind |-> "family", f |-> f, cell |-> Construct(f), expect |-> FamilyOf(Construct(f)), ok |-> FamilyOf(Construct(f)) = f]
MNext == mphase = 0 /\ mphase' = 1 /\ (GenVec \/ GenPlane \/ GenStr \/ GenFam)
DesignOK == mphase = 1 => mcase.ok
MEmit == mphase = 1 => PrintT("@@CASE " \o ToJson(mcase))

\* ---- conformance verdicts ----------------------------------------------------------------------
\* r.q: grid denominator of the cell; results logged as integers
VerdictVec3to4(r) ==      \* r.y integer triples, r.x3 = rint(3 * result)
    IF ~r.ongrid THEN "vector3to4_off_thirds_grid"
    ELSE IF \E k \in 1..Len(r.y) : r.x3[k][1] + r.x3[k][2] + r.x3[k][3] # 0 THEN "u_plus_v_plus_t_not_zero"
    ELSE IF \E k \in 1..Len(r.y) : Cart4(r.x3[k], r.v) # Scale(3, VecMat(r.y[k], r.v)) THEN "four_index_vector_is_a_different_cartesian_vector"
    ELSE "ok"
VerdictVec4to3(r) ==      \* r.x integer quadruples with u+v+t=0, r.y = rint(result)
    IF ~r.ongrid THEN "vector4to3_off_grid"
    ELSE IF \E k \in 1..Len(r.x) : VecMat(r.y[k], r.v) # Cart4(r.x[k], r.v) THEN "three_index_vector_is_a_different_cartesian_vector"
    ELSE "ok"
VerdictPlane34(r) ==      \* r.p triples, r.p4 = result of plane3to4, r.back = plane4to3(result)
    IF ~r.ongrid THEN "plane_indices_off_grid"
    ELSE IF \E k \in 1..Len(r.p) : r.p4[k] # Plane3to4(r.p[k]) THEN "plane3to4_wrong"
    ELSE IF \E k \in 1..Len(r.p) : r.back[k] # r.p[k] THEN "plane4to3_does_not_undo_plane3to4"
    ELSE "ok"
VerdictCart(r) ==         \* vector_crystal_to_cartesian: r.c = rint(q * result)
    IF ~r.ongrid THEN "cartesian_vector_off_grid"
    ELSE IF \E k \in 1..Len(r.y) : r.c[k] # VecMat(r.y[k], r.v) THEN "crystal_vector_cartesian_wrong"
    ELSE "ok"
\* plane normal n (unit vector): logged d = rint(S * n . <a,b,c>), n2 = rint(S * |n|^2), S = r.s
VerdictNormal(r) ==
    LET p == r.p  d == r.d  sg == Sign(Det3(r.v)) IN
    IF Abs(r.n2 - r.s) > 2 THEN "normal_is_not_a_unit_vector"
    ELSE IF \E i \in 1..3 : Sign(d[i]) # sg * Sign(p[i]) /\ Abs(d[i]) > 1 THEN "normal_points_to_the_wrong_side"
    ELSE IF \E i \in 1..3 : p[i] = 0 /\ Abs(d[i]) > 1 THEN "normal_not_perpendicular_to_an_in_plane_cell_vector"
    ELSE IF \E i \in 1..3 : \E j \in 1..3 : i < j /\ Abs(d[i]*p[j] - d[j]*p[i]) > Abs(p[i]) + Abs(p[j]) THEN "normal_not_along_reciprocal_lattice_vector"
    ELSE IF \A i \in 1..3 : Abs(d[i]) <= 1 THEN "normal_vanishes"
    ELSE "ok"
VerdictReduce(r) ==
    IF \E k \in 1..Len(r.y) : r.red[k] # Reduce3(r.y[k]) THEN "reduced_indices_wrong" ELSE "ok"
VerdictMiller(r) ==
    CASE r.ev = "vec3to4" -> VerdictVec3to4(r)
      [] r.ev = "vec4to3" -> VerdictVec4to3(r)
      [] r.ev = "plane34" -> VerdictPlane34(r)
      [] r.ev = "cart" -> VerdictCart(r)
      [] r.ev = "normal" -> VerdictNormal(r)
      [] r.ev = "reduce" -> VerdictReduce(r)
      [] r.ev = "centring" -> VerdictCentring(r)
      [] OTHER -> "unknown_event"
====
