---- MODULE Arith ----
(***************************************************************************)
(* Exact integer / rational / 3-vector / 3x3-matrix arithmetic shared by   *)
(* every atomman specification module.  All geometry in the specification  *)
(* is done on numerators over a common grid denominator, so TLC's 32-bit   *)
(* integers are exact (TLC aborts on overflow, it never wraps).            *)
(***************************************************************************)
EXTENDS Integers, Sequences, FiniteSets, TLC
Abs(x)  == IF x < 0 THEN -x ELSE x
Sign(x) == IF x < 0 THEN -1 ELSE IF x > 0 THEN 1 ELSE 0
Max(a,b) == IF a >= b THEN a ELSE b
Min(a,b) == IF a <= b THEN a ELSE b
RECURSIVE GcdN(_,_)
GcdN(a,b) == IF b = 0 THEN a ELSE GcdN(b, a % b)
Gcd(a,b)  == GcdN(Abs(a), Abs(b))
Gcd3(v)   == Gcd(Gcd(v[1], v[2]), v[3])
ASSUME (-7) \div 2 = -4 /\ (-7) % 2 = 1       \* TLC's \div is floor for positive divisors
FloorDiv(n,d) == IF d > 0 THEN n \div d ELSE (-n) \div (-d)
CeilDiv(n,d)  == -FloorDiv(-n, d)
\* rationals <<num, den>> with den > 0, lowest terms
Rat(n,d)  == LET s == IF d < 0 THEN -1 ELSE 1  g == Gcd(n,d) IN
             IF g = 0 THEN <<0,1>> ELSE <<(s*n) \div g, (s*d) \div g>>
RAdd(p,q) == Rat(p[1]*q[2] + q[1]*p[2], p[2]*q[2])
RSub(p,q) == Rat(p[1]*q[2] - q[1]*p[2], p[2]*q[2])
RMul(p,q) == Rat(p[1]*q[1], p[2]*q[2])
RDiv(p,q) == Rat(p[1]*q[2], p[2]*q[1])
RNeg(p)   == <<-p[1], p[2]>>
RLe(p,q)  == p[1]*q[2] <= q[1]*p[2]
RLt(p,q)  == p[1]*q[2] <  q[1]*p[2]
REq(p,q)  == p[1]*q[2] =  q[1]*p[2]
RInt(n)   == <<n,1>>
\* 3-vectors and 3x3 matrices (tuples of rows)
Dot(a,b)   == a[1]*b[1] + a[2]*b[2] + a[3]*b[3]
Add(a,b)   == <<a[1]+b[1], a[2]+b[2], a[3]+b[3]>>
Sub(a,b)   == <<a[1]-b[1], a[2]-b[2], a[3]-b[3]>>
Neg(a)     == <<-a[1], -a[2], -a[3]>>
Scale(k,a) == <<k*a[1], k*a[2], k*a[3]>>
Cross(a,b) == <<a[2]*b[3]-a[3]*b[2], a[3]*b[1]-a[1]*b[3], a[1]*b[2]-a[2]*b[1]>>
Norm2(a)   == Dot(a,a)
Zero3      == <<0,0,0>>
Det3(M)    == Dot(M[1], Cross(M[2], M[3]))
VecMat(v,M)== Add(Scale(v[1],M[1]), Add(Scale(v[2],M[2]), Scale(v[3],M[3])))   \* row vector x matrix
MatVec(M,v)== <<Dot(M[1],v), Dot(M[2],v), Dot(M[3],v)>>
MatMul(A,B)== <<VecMat(A[1],B), VecMat(A[2],B), VecMat(A[3],B)>>
Col(M,j)   == <<M[1][j], M[2][j], M[3][j]>>
Transp(M)  == <<Col(M,1), Col(M,2), Col(M,3)>>
Ident3     == <<<<1,0,0>>,<<0,1,0>>,<<0,0,1>>>>
MScale(k,M)== <<Scale(k,M[1]), Scale(k,M[2]), Scale(k,M[3])>>
\* M . Adj3(M) = Det3(M) . I
Adj3(M)    == Transp(<<Cross(M[2],M[3]), Cross(M[3],M[1]), Cross(M[1],M[2])>>)
MinOf(S)   == CHOOSE m \in S : \A x \in S : m <= x
MaxOf(S)   == CHOOSE m \in S : \A x \in S : m >= x
Parallel(a,b) == Cross(a,b) = Zero3
RECURSIVE SumSeq(_)
SumSeq(s) == IF s = <<>> THEN 0 ELSE Head(s) + SumSeq(Tail(s))
Range(f) == {f[i] : i \in DOMAIN f}
====
