---- MODULE Dvect ----
(***************************************************************************)
(* C02 -- periodic separation.                                             *)
(*                                                                         *)
(* Design level: for an enumerated domain of cells, periodicity settings   *)
(* and point pairs TLC checks the theorem behind the property (the 27      *)
(* candidate search IS the true nearest image whenever both points are in  *)
(* the cell and the cell is orthogonal or the true distance is below half  *)
(* the smallest perpendicular width) with an exhaustive lattice search of  *)
(* proven finite radius, and emits every state as an implementation case.  *)
(*                                                                         *)
(* Conformance level: Verdict(r) decides one recorded call of              *)
(* dvect / dmag / System.dvect / System.dmag / displacement.               *)
(***************************************************************************)
EXTENDS Lattice, Json

CONSTANTS Cells,      \* set of cells [v |-> rows, o |-> origin] (integer numerators)
          G,          \* relative grid: points o + (i a + j b + k c)/G, i,j,k in GLo..GHi
          GLo, GHi,
          EmitCases   \* BOOLEAN: print one @@CASE per state

VARIABLES cell, pbc, p0, p1, phase      \* phase 0: cell chosen; 1: first point chosen; 2: pair complete

vars == <<cell, pbc, p0, p1, phase>>

GridPts(c) == { Add(c.o, <<(i*c.v[1][1] + j*c.v[2][1] + k*c.v[3][1]) \div G,
                           (i*c.v[1][2] + j*c.v[2][2] + k*c.v[3][2]) \div G,
                           (i*c.v[1][3] + j*c.v[2][3] + k*c.v[3][3]) \div G>>) :
                 i \in GLo..GHi, j \in GLo..GHi, k \in GLo..GHi }

\* every cell entry must be divisible by G so that grid points are integers
ASSUME \A c \in Cells : \A i \in 1..3 : \A j \in 1..3 : c.v[i][j] % G = 0

Bools == {TRUE, FALSE}

\* (the pair is chosen in two steps only so that TLC's workers share the enumeration)
Init == /\ cell \in Cells
        /\ pbc \in {<<x,y,z>> : x \in Bools, y \in Bools, z \in Bools}
        /\ p0 = Zero3 /\ p1 = Zero3 /\ phase = 0
PickFirst  == phase = 0 /\ p0' \in GridPts(cell) /\ phase' = 1 /\ UNCHANGED <<cell, pbc, p1>>
PickSecond == phase = 1 /\ p1' \in GridPts(cell) /\ phase' = 2 /\ UNCHANGED <<cell, pbc, p0>>
Next == PickFirst \/ PickSecond

-----------------------------------------------------------------------------
\* Search radius with proof obligation (see DESIGN.md C02): for points inside the cell every
\* image with some |n_i| > R is at least R * w_min long, so R with R^2 w_min^2 >= Min27 suffices.
MaxCross2(M) == MaxOf({WidthDen(M,i) : i \in 1..3})
\* (per axis: |image| >= |s_i + n_i| w_i, and |s_i| <= 1 for points inside, so n_i beyond R_i with
\*  R_i^2 w_i^2 >= Min27 cannot beat the best of the 27; w_i^2 = Det^2 / |a_j x a_k|^2.)
Radius(c, pb, d, i) ==
    LET m == Min27(c, pb, d)  dd == WidthNum(c.v)  mc == WidthDen(c.v, i)
    IN IF ~pb[i] THEN 0 ELSE CHOOSE R \in 1..12 : R*R*dd >= m*mc /\ \A Q \in 1..(R-1) : Q*Q*dd < m*mc
TrueNearest(c, pb, d) ==
    LET R1 == Radius(c,pb,d,1) R2 == Radius(c,pb,d,2) R3 == Radius(c,pb,d,3) IN
    MinOf({ Norm2(Add(d, VecMat(<<x,y,z>>, c.v))) : x \in (-R1)..R1, y \in (-R2)..R2, z \in (-R3)..R3 })
HalfWidthOK(c, pb, d) == 4 * TrueNearest(c, pb, d) * MaxCross2(c.v) < WidthNum(c.v)
Antecedent(c, pb, a, b) ==
    /\ InsideIncl(c, a) /\ InsideIncl(c, b)
    /\ (IsOrtho(c.v) \/ HalfWidthOK(c, pb, Sub(b, a)))

\* The design theorem (clause 5 of the property statement)
NearestTheorem == (phase = 2 /\ Antecedent(cell, pbc, p0, p1)) =>
    Min27(cell, pbc, Sub(p1,p0)) = TrueNearest(cell, pbc, Sub(p1,p0))
\* Min27 is never above the direct separation and is attained by a lattice image
Min27Sane == phase = 2 =>
    LET d == Sub(p1,p0) IN
    /\ Min27(cell,pbc,d) <= Norm2(d)
    /\ (InsideIncl(cell,p0) /\ InsideIncl(cell,p1)) => Min27(cell,pbc,d) >= TrueNearest(cell,pbc,d)
\* symmetric in its arguments
Min27Symmetric == phase = 2 => Min27(cell,pbc,Sub(p1,p0)) = Min27(cell,pbc,Sub(p0,p1))

Emit == (EmitCases /\ phase = 2) =>
    PrintT("@@CASE " \o ToJson([v |-> cell.v, o |-> cell.o, pbc |-> pbc, p0 |-> p0, p1 |-> p1,
                                m27 |-> Min27(cell,pbc,Sub(p1,p0)),
                                ante |-> Antecedent(cell,pbc,p0,p1),
                                tm |-> IF InsideIncl(cell,p0) /\ InsideIncl(cell,p1)
                                       THEN TrueNearest(cell,pbc,Sub(p1,p0)) ELSE -1]))

-----------------------------------------------------------------------------
\* Conformance: one recorded call.  r.ev \in {"dvect","dmag","disp","shape"}
RCell(r) == [v |-> r.v, o |-> r.o]
VerdictDvect(r) ==
    LET c == RCell(r)  d == Sub(r.p1, r.p0)  IN
    IF ~r.ongrid THEN "result_off_grid"
    ELSE IF ~IsLatticeShift(c, r.pbc, Sub(r.dv, d)) THEN "not_a_periodic_lattice_image"
    ELSE IF Norm2(r.dv) # Min27(c, r.pbc, d) THEN "longer_than_a_27_candidate"
    ELSE IF r.chk /\ Antecedent(c, r.pbc, r.p0, r.p1) /\ Norm2(r.dv) # TrueNearest(c, r.pbc, d)
         THEN "not_true_nearest_image"
    ELSE "ok"
VerdictDmag(r) ==
    LET c == RCell(r)  d == Sub(r.p1, r.p0)  IN
    IF ~r.ongrid THEN "dmag2_off_grid"
    ELSE IF r.dm2 # Min27(c, r.pbc, d) THEN "dmag_differs_from_nearest_of_27"
    ELSE "ok"
\* displacement with no reference box is the plain difference
VerdictPlain(r) ==
    IF ~r.ongrid THEN "result_off_grid"
    ELSE IF r.dv # Sub(r.p1, r.p0) THEN "plain_difference_wrong" ELSE "ok"
\* broadcasting rule: n rows against m rows
VerdictShape(r) ==
    LET legal == r.n0 = 1 \/ r.n1 = 1 \/ r.n0 = r.n1
        want  == Max(r.n0, r.n1) IN
    IF legal /\ r.refused THEN "legal_shapes_refused"
    ELSE IF ~legal /\ ~r.refused THEN "incompatible_lengths_accepted"
    ELSE IF legal /\ r.nout # want THEN "wrong_number_of_rows"
    ELSE "ok"
Verdict(r) ==
    CASE r.ev = "dvect" -> VerdictDvect(r)
      [] r.ev = "dmag"  -> VerdictDmag(r)
      [] r.ev = "plain" -> VerdictPlain(r)
      [] r.ev = "shape" -> VerdictShape(r)
      [] OTHER -> "unknown_event"
====
