---- MODULE SurfaceBasis ----
(***************************************************************************)
(* C14 -- surface-oriented cells, free-surface systems and stacking-fault  *)
(* shifts.  The specification states what a VALID answer is (the choice    *)
(* of lattice vectors is not unique), TLC enumerates the plane / cell /    *)
(* cut-vector space as cases and decides every recorded answer.            *)
(***************************************************************************)
EXTENDS Miller

CONSTANTS SCellNames, SIdx, SCuts

VARIABLES scase, sphase
svars == <<scase, sphase>>

SInit == sphase = 0 /\ scase = <<>> /\ MInit
SNext == UNCHANGED mvars /\ sphase = 0 /\ sphase' = 1 /\
         \E c \in SCellNames : \E h \in SIdx : \E k \in SIdx : \E l \in SIdx : \E cut \in SCuts :
            <<h,k,l>> # Zero3 /\ scase' = [cell |-> c, hkl |-> <<h,k,l>>, cut |-> cut]
SEmit == sphase = 1 => PrintT("@@CASE " \o ToJson(scase))

\* ---- a valid surface basis ----------------------------------------------------------------
InPlane(cut) == (1..3) \ {cut}
VerdictBasis(r) ==
    IF ~r.ongrid THEN "lattice_vectors_not_integer"
    ELSE IF Det3(r.uvws) <= 0 THEN "lattice_vectors_not_right_handed"
    ELSE IF \E i \in InPlane(r.cut) : Dot(r.hkl, r.uvws[i]) # 0 THEN "in_plane_vector_violates_zone_law"
    ELSE IF Dot(r.hkl, r.uvws[r.cut]) = 0 THEN "out_of_plane_vector_lies_in_the_plane"
    ELSE IF r.four /\ (\E i \in 1..3 : r.uvtw3[i] # Vec3to4x3(r.uvws[i])) THEN "four_index_form_inconsistent"
    ELSE VerdictNormal([p |-> r.hkl, d |-> r.d, n2 |-> r.n2, s |-> r.s, v |-> r.v])

\* ---- free-surface system -------------------------------------------------------------------
\* r.atoms = <<  <<x1,x2,x3,type>> ... >> lattice numerators over r.dd in the ORIGINAL unit cell, r.basis likewise
Congruent(x, b, dd) == x[4] = b[4] /\ \A i \in 1..3 : (x[i] - b[i]) % dd = 0
VerdictSurface(r) ==
    LET n == Len(r.atoms)  nb == Len(r.basis) IN
    IF ~r.ongrid THEN "atom_not_on_a_lattice_site_of_the_unit_cell"
    ELSE IF r.pbc # [i \in 1..3 |-> i # r.cut] THEN "periodicity_not_only_across_the_cut"
    ELSE IF n # r.detuvw * r.mult * nb THEN "atom_count_is_not_replication_count_times_basis"
    ELSE IF \E a \in 1..n : ~\E b \in 1..nb : Congruent(r.atoms[a], r.basis[b], r.dd) THEN "atom_is_not_an_atom_of_the_crystal"
    ELSE IF \E b \in 1..nb : Cardinality({a \in 1..n : Congruent(r.atoms[a], r.basis[b], r.dd)}) * nb # n
         THEN "basis_atoms_not_represented_equally"
    ELSE IF \E a \in 1..n : r.layer[a] < r.margin \/ r.layer[a] > r.s - r.margin THEN "cut_not_strictly_between_atomic_planes"
    ELSE "ok"

\* ---- stacking fault --------------------------------------------------------------------------
\* r.e = per atom <<e1, e2, e3>> displacement in eighths of (a1vect, a2vect) and S-fixed-point along the normal;
\* r.above per atom; r.layer per atom (S fixed point relative), r.fault likewise; r.a = <<8 a1, 8 a2>>; r.m = in-plane multipliers
VerdictFault(r) ==
    LET n == Len(r.e) IN
    IF ~r.ongrid THEN "fault_displacement_off_the_eighths_grid"
    ELSE IF \E i \in 1..n : r.above[i] # (r.layer[i] > r.fault) THEN "above_fault_set_is_not_the_atoms_beyond_the_fault_plane"
    ELSE IF \E i \in 1..n : ~r.above[i] /\ (r.e[i][1] % (8 * r.m[1]) # 0 \/ r.e[i][2] % (8 * r.m[2]) # 0 \/ r.e[i][3] # 0) THEN "atom_below_the_fault_moved"
    ELSE IF \E i \in 1..n : r.above[i] /\ ((r.e[i][1] - r.a[1]) % (8 * r.m[1]) # 0 \/ (r.e[i][2] - r.a[2]) % (8 * r.m[2]) # 0 \/ r.e[i][3] # 0)
         THEN "atom_above_the_fault_not_moved_by_the_requested_vector"
    ELSE IF ~(\E i \in 1..n : r.above[i]) \/ ~(\E i \in 1..n : ~r.above[i]) THEN "fault_plane_not_inside_the_system"
    ELSE "ok"
VerdictSurf(r) ==
    CASE r.ev = "basis" -> VerdictBasis(r)
      [] r.ev = "surface" -> VerdictSurface(r)
      [] r.ev = "fault" -> VerdictFault(r)
      [] OTHER -> "unknown_event"
====
