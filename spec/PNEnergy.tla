---- MODULE PNEnergy ----
(***************************************************************************)
(* C18 -- gamma surface and semidiscrete Peierls-Nabarro energies.         *)
(*                                                                         *)
(* Decided on recorded executions (C->S) by laws that are exact in the     *)
(* logged integers or linear with small integer coefficients:              *)
(*  gamma : E(sample) = input ; E(a+i, b+j) = E(a, b) ; fractional <->     *)
(*          Cartesian <-> plotting coordinates are mutually inverse linear *)
(*          maps (exact integer expectations), for one and many positions  *)
(*  PN    : the stress, surface and nonlocal terms are exact rational sums *)
(*          of the documented formulas over a dyadic profile; the misfit   *)
(*          term is dx * sum of gamma samples when every disregistry lands *)
(*          on a sample; total = sum of the six terms; the elastic term is *)
(*          a symmetric quadratic form of the dislocation density          *)
(*          (parallelogram law, E(2d) = 4E(d), shift invariance);          *)
(*          solving never raises the energy and keeps both end values;     *)
(*          for a sinusoidal misfit law the arctangent profile of the      *)
(*          classical half-width has the lowest energy.                    *)
(***************************************************************************)
EXTENDS Integers, Sequences, FiniteSets, TLC, Json

VARIABLES pdummy
pvars == <<pdummy>>
Abs(x) == IF x < 0 THEN -x ELSE x
Close(a, b, sl) == Abs(a - b) <= sl
RECURSIVE SumTo(_, _)
SumTo(f, n) == IF n = 0 THEN 0 ELSE f[n] + SumTo(f, n - 1)
Sum(f) == SumTo(f, Len(f))

\* ---- gamma surface -------------------------------------------------------------------------------------------------------
VerdictGSample(r) ==          \* r.e: input energies (integers), r.got: rint(S * E_gsf(sample))
    IF Len(r.got) # Len(r.e) THEN "wrong_number_of_values"
    ELSE IF \E k \in 1..Len(r.e) : ~Close(r.got[k], r.s * r.e[k], r.tol) THEN "sampled_energy_not_reproduced"
    ELSE "ok"
VerdictGPeriod(r) ==          \* r.v0[k] = S*E(a,b), r.v1[k] = S*E(a+i, b+j)
    IF \E k \in 1..Len(r.v0) : ~Close(r.v0[k], r.v1[k], r.tol) THEN "not_periodic_in_the_shift_vectors" ELSE "ok"
Add3(a, b) == <<a[1]+b[1], a[2]+b[2], a[3]+b[3]>>
Scale3(k, a) == <<k*a[1], k*a[2], k*a[3]>>
Dot3(a, b) == a[1]*b[1] + a[2]*b[2] + a[3]*b[3]
VerdictGConv(r) ==            \* integer shift vectors A1, A2 (Cartesian numerators), fractions f[k] = <<n1, n2>> over r.den
    LET n == Len(r.f) IN
    IF ~r.ongrid THEN "conversion_result_off_grid"
    ELSE IF Len(r.pos) # n \/ Len(r.back) # n \/ Len(r.xyback) # n THEN "conversion_changes_the_number_of_positions"
    ELSE IF \E k \in 1..n : r.pos[k] # Add3(Scale3(r.f[k][1], r.a1), Scale3(r.f[k][2], r.a2)) THEN "fractional_to_cartesian_wrong"
    ELSE IF \E k \in 1..n : r.back[k] # r.f[k] THEN "cartesian_to_fractional_does_not_invert_fractional_to_cartesian"
    ELSE IF \E k \in 1..n : r.xyback[k] # r.f[k] THEN "plotting_to_fractional_does_not_invert_fractional_to_plotting"
    ELSE IF \E k \in 1..n : ~Close(r.xy2[k], Dot3(r.pos[k], r.pos[k]), r.tol) THEN "plotting_coordinates_do_not_preserve_lengths"
    ELSE "ok"

\* ---- Peierls-Nabarro terms on a dyadic profile ---------------------------------------------------------------------------------
\* r.d8: N x 3 disregistry in eighths ; dx = 1/2 ; x_i = (r.x2 + i - 1)/2 ; r.tau, r.bsum (column sums of beta), r.alpha integers
\* energies are logged as rint(1024 * value)
N(r) == Len(r.d8)
Rho4(r, i, l) == r.d8[i+1][l] - r.d8[i][l]                                  \* rho = Rho4/4   (nearest difference, i in 1..N-1)
Rho8(r, i, l) == r.d8[i+2][l] - r.d8[i][l]                                  \* rho = Rho8/8   (central difference, i in 1..N-2)
Surface1024(r) == IF r.cdiffsurface
                  THEN 2 * Sum([i \in 1..(N(r)-2) |-> Sum([l \in 1..3 |-> Rho8(r,i,l) * Rho8(r,i,l) * r.bsum[l]])])
                  ELSE 8 * Sum([i \in 1..(N(r)-1) |-> Sum([l \in 1..3 |-> Rho4(r,i,l) * Rho4(r,i,l) * r.bsum[l]])])
Nonlocal1024(r) == 4 * Sum([m \in 1..Len(r.alpha) |-> r.alpha[m] *
                      Sum([i \in 1..(N(r) - 2*m) |-> Sum([l \in 1..3 |->
                          r.d8[i+m][l] * (2 * r.d8[i+m][l] - r.d8[i+2*m][l] - r.d8[i][l])])])])
Stress1024(r) == -32 * Sum([i \in 1..(N(r)-1) |-> (2 * (r.x2 + i - 1) + 1) * Sum([l \in 1..3 |-> Rho4(r,i,l) * r.tau[l]])])
\* misfit: every disregistry lands on gamma sample r.gk[i] (index into r.gE): value = dx * sum E
Misfit1024(r) == 512 * Sum([i \in 1..N(r) |-> r.ge[r.gk[i]]])
VerdictPNTerms(r) ==
    IF ~r.ongrid THEN "energy_term_off_the_dyadic_grid"
    ELSE IF r.surface # Surface1024(r) THEN "surface_term_is_not_its_formula"
    ELSE IF r.nonlocal # Nonlocal1024(r) THEN "nonlocal_term_is_not_its_formula"
    ELSE IF r.stress # Stress1024(r) THEN "stress_term_is_not_its_formula"
    ELSE IF Len(r.gk) > 0 /\ ~Close(r.misfit, Misfit1024(r), r.tol) THEN "misfit_term_is_not_dx_times_the_sum_of_gamma_values"
    ELSE IF ~Close(r.total, r.misfit + r.elastic + r.longrange + r.stress + r.surface + r.nonlocal, 6) THEN "total_is_not_the_sum_of_its_terms"
    ELSE "ok"
\* elastic term: symmetric quadratic form of the density (fixed point S, tolerance r.tol per value)
VerdictPNLaws(r) ==
    IF ~Close(r.eplus + r.eminus, 2 * r.e1 + 2 * r.e2, 6 * r.tol) THEN "elastic_term_violates_the_parallelogram_law"
    ELSE IF ~Close(r.edouble, 4 * r.e1, 5 * r.tol) THEN "elastic_term_is_not_quadratic"
    ELSE IF ~Close(r.eshift, r.e1, 2 * r.tol) THEN "elastic_term_changes_under_a_rigid_shift_of_the_disregistry"
    ELSE IF ~Close(r.ecross12, r.ecross21, 2 * r.tol) THEN "elastic_form_not_symmetric"
    ELSE IF r.e1 <= 0 THEN "elastic_term_of_a_nonzero_density_not_positive"
    ELSE "ok"
\* long-range term K_lm b_l b_m ln(L) / (2 pi) along a HISTORY of cutoffs set on one object: L1, L2, L1*L2, L1^2, 1 (fixed point, r.tol per value)
VerdictPNLong(r) ==
    IF ~Close(r.e12, r.e1 + r.e2, 3 * r.tol) THEN "longrange_term_is_not_logarithmic_in_the_cutoff_after_changing_it"
    ELSE IF ~Close(r.esq, 2 * r.e1, 3 * r.tol) THEN "longrange_term_is_not_logarithmic_in_the_cutoff_after_changing_it"
    ELSE IF ~Close(r.eone, 0, r.tol) THEN "longrange_term_does_not_vanish_for_unit_cutoff"
    ELSE IF ~Close(r.e1, r.eform, 2 * r.tol) THEN "longrange_term_is_not_its_formula"
    ELSE IF ~Close(r.dtot, r.e12 - r.e1, 4 * r.tol) THEN "total_is_not_the_sum_of_its_terms_after_changing_the_cutoff"
    ELSE "ok"
\* the same evaluation twice on one object, and with the applied stress reversed on a fresh one (the stress term is linear in tau)
VerdictPNRepeat(r) ==
    IF r.first # r.second THEN "repeated_evaluation_on_one_object_changes_the_energy"
    ELSE IF ~r.taukept THEN "evaluation_modified_the_applied_stress_kept_on_the_object"
    ELSE IF ~Close(r.neg, -r.first[1], r.tol) THEN "stress_term_is_not_linear_in_the_applied_stress"
    ELSE "ok"
VerdictPNSolve(r) ==
    IF r.after > r.before + r.tol THEN "solving_raised_the_total_energy"
    ELSE IF r.first1 # r.first0 \/ r.last1 # r.last0 THEN "end_disregistry_changed_by_the_solver"
    ELSE "ok"
VerdictPNWidth(r) ==        \* r.e: energies for half-widths zeta * 2^(j/4), j = -4..4 (9 values, the classical one in the middle)
    LET n == Len(r.e)  mid == (n + 1) \div 2
        best == CHOOSE k \in 1..n : \A j \in 1..n : r.e[k] <= r.e[j] IN
    IF Abs(best - mid) > r.slackidx THEN "classical_half_width_is_not_the_energy_minimum" ELSE "ok"
VerdictPN(r) ==
    CASE r.ev = "gsample" -> VerdictGSample(r) [] r.ev = "gperiod" -> VerdictGPeriod(r) [] r.ev = "gconv" -> VerdictGConv(r)
      [] r.ev = "pnterms" -> VerdictPNTerms(r) [] r.ev = "pnlaws" -> VerdictPNLaws(r) [] r.ev = "pnsolve" -> VerdictPNSolve(r)
      [] r.ev = "pnwidth" -> VerdictPNWidth(r) [] r.ev = "pnlong" -> VerdictPNLong(r) [] r.ev = "pnrepeat" -> VerdictPNRepeat(r) [] OTHER -> "unknown_event"
====
