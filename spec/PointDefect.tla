---- MODULE PointDefect ----
(***************************************************************************)
(* C15 -- point-defect insertion.  The system is a cell (integer rows over *)
(* the grid denominator, origin, pbc) and an ORDERED list of atoms         *)
(* [p: Cartesian numerators, t: type, q: property code, oid: index in the  *)
(* original system or -1 for atoms created by a defect].  One action per   *)
(* generator call; sequences of up to PDepth insertions; the complete      *)
(* expected atom list after every step is part of the emitted history.     *)
(***************************************************************************)
EXTENDS Lattice, Json

CONSTANTS PSystems,    \* initial systems [cell, pbc, atoms]
          PDepth,
          DbVects,     \* dumbbell half-vectors (Cartesian numerators)
          RelDb,       \* dumbbell half-vectors in relative numerators over RelDen
          RelDen,
          SelKinds,    \* selector kinds enabled
          IntSites     \* candidate interstitial positions (relative numerators over RelDen)

VARIABLES psys, ph
pvars == <<psys, ph>>

N == Len(psys.atoms)
RelToCart(c, s) == Add(c.o, <<(s[1]*c.v[1][1] + s[2]*c.v[2][1] + s[3]*c.v[3][1]) \div RelDen,
                              (s[1]*c.v[1][2] + s[2]*c.v[2][2] + s[3]*c.v[3][2]) \div RelDen,
                              (s[1]*c.v[1][3] + s[2]*c.v[2][3] + s[3]*c.v[3][3]) \div RelDen>>)
RelVecToCart(c, s) == Sub(RelToCart(c, s), c.o)
\* atoms whose position coincides with p modulo the periodic lattice
Matches(p) == {i \in 1..N : Min27(psys.cell, psys.pbc, Sub(psys.atoms[i].p, p)) = 0}
RemoveAt(s, i) == [j \in 1..(Len(s)-1) |-> IF j < i THEN s[j] ELSE s[j+1]]

\* selectors: by id (0-based, also negative), by Cartesian position (exact, image, within / beyond tolerance), by relative position
SelectorsAll ==
    {[by |-> "id", id |-> i - 1, target |-> i] : i \in 1..N} \cup {[by |-> "id", id |-> i - 1 - N, target |-> i] : i \in 1..N}
    \cup {[by |-> "id", id |-> N, target |-> 0], [by |-> "id", id |-> -N - 1, target |-> 0]}
    \cup {[by |-> "pos", p |-> psys.atoms[i].p, off |-> off, atol |-> "default", target |-> IF off \in {"beyond", "corner"} THEN 0 ELSE i] : i \in 1..N, off \in {"exact", "within", "beyond", "corner"}}
    \* an explicit search tolerance: zero (exact match only) and a wide one (0.1: the "beyond" offset of 1/16 is then inside)
    \cup {[by |-> "pos", p |-> psys.atoms[i].p, off |-> "exact", atol |-> "zero", target |-> i] : i \in 1..N}
    \cup {[by |-> "pos", p |-> psys.atoms[i].p, off |-> "within", atol |-> "zero", target |-> 0] : i \in 1..N}
    \cup {[by |-> "pos", p |-> psys.atoms[i].p, off |-> "beyond", atol |-> "wide", target |-> i] : i \in 1..N}
    \* a tolerance so large that every atom is within it: with more than one atom the site is ambiguous (refused), with one it is that atom
    \cup {[by |-> "pos", p |-> psys.atoms[i].p, off |-> "exact", atol |-> "huge", target |-> IF N = 1 THEN i ELSE 0] : i \in 1..N}
    \cup {[by |-> "image", p |-> Add(psys.atoms[i].p, VecMat(n, psys.cell.v)), target |-> i] :
            i \in 1..N, n \in {s \in Shifts(psys.pbc, 1) : Norm2(s) = 1}}
    \cup {[by |-> "relpos", i |-> i - 1, target |-> i] : i \in 1..N}
Selectors == {s \in SelectorsAll : s.by \in SelKinds}
\* a position selector is ambiguous when several atoms sit there
Resolved(sel) == IF sel.by \in {"pos", "image"} /\ sel.target # 0 /\ Cardinality(Matches(psys.atoms[sel.target].p)) # 1 THEN 0 ELSE sel.target

Rec(act, args, expect) == [act |-> act, args |-> args, expect |-> expect, natoms |-> IF "atoms" \in DOMAIN expect THEN Len(expect.atoms) ELSE N]
Apply(act, args, atoms2) == psys' = [psys EXCEPT !.atoms = atoms2] /\ ph' = Append(ph, Rec(act, args, [atoms |-> atoms2]))
Refuse(act, args) == UNCHANGED psys /\ ph' = Append(ph, Rec(act, args, [refused |-> "ValueError"]))

Vacancy == \E sel \in Selectors : LET t == Resolved(sel) IN
    IF t = 0 THEN Refuse("vacancy", [sel |-> sel])
    ELSE N > 1 /\ Apply("vacancy", [sel |-> sel], RemoveAt(psys.atoms, t))
Substitutional == \E sel \in Selectors : \E ty \in 1..3 : \E q \in {-1, 2} :      \* q = -1: property not given (unchanged)
    LET t == Resolved(sel) IN
    IF t = 0 \/ psys.atoms[t].t = ty THEN Refuse("substitutional", [sel |-> sel, atype |-> ty, q |-> q])
    ELSE Apply("substitutional", [sel |-> sel, atype |-> ty, q |-> q],
               Append(RemoveAt(psys.atoms, t), [psys.atoms[t] EXCEPT !.t = ty, !.q = IF q = -1 THEN @ ELSE q]))
Interstitial == \E s \in IntSites : \E ty \in {0, 2} : \E q \in {-1, 3} : \E scale \in BOOLEAN :   \* ty = 0: atype not given (default 1)
    LET p == RelToCart(psys.cell, s)  args == [s |-> s, p |-> p, atype |-> ty, q |-> q, scale |-> scale] IN
    IF Matches(p) # {} THEN Refuse("interstitial", args)
    ELSE N < 7 /\ Apply("interstitial", args,
               Append(psys.atoms, [p |-> p, t |-> IF ty = 0 THEN 1 ELSE ty, q |-> IF q = -1 THEN 0 ELSE q, oid |-> -1]))
\* an interstitial asked for close to an atom ("beyond" the default search tolerance, inside a wide one given explicitly): occupied, refused
InterstitialNearWide == \E i \in 1..N : Refuse("interstitial", [near |-> i - 1, p |-> psys.atoms[i].p, off |-> "beyond", atol |-> "wide", atype |-> 0, q |-> -1, scale |-> FALSE])
Dumbbell == \E sel \in Selectors : \E k \in 1..Len(DbVects) : \E scale \in BOOLEAN : \E q \in {-1, 1} :
    LET t == Resolved(sel)
        db == IF scale THEN RelVecToCart(psys.cell, RelDb[k]) ELSE DbVects[k]
        args == [sel |-> sel, db |-> IF scale THEN RelDb[k] ELSE DbVects[k], scale |-> scale, q |-> q] IN
    IF t = 0 THEN Refuse("dumbbell", args)
    ELSE N < 7 /\ Apply("dumbbell", args,
               Append(Append(RemoveAt(psys.atoms, t), [psys.atoms[t] EXCEPT !.p = Sub(@, db)]),
                      [psys.atoms[t] EXCEPT !.p = Add(@, db), !.q = IF q = -1 THEN @ ELSE q, !.oid = -1]))

PInit == psys \in PSystems /\ ph = <<>>
PNext == Len(ph) < PDepth /\ (Vacancy \/ Substitutional \/ Interstitial \/ InterstitialNearWide \/ Dumbbell)

\* ---- the property on the model ------------------------------------------------------------------------
\* survivors keep their relative order and their original index (old ids strictly increasing among survivors that were
\* never moved to the end); every original atom appears at most once
OidsDistinct == \A i \in 1..N : \A j \in 1..N : (i # j /\ psys.atoms[i].oid >= 0) => psys.atoms[i].oid # psys.atoms[j].oid
CountLaw == \A k \in 1..Len(ph) :
    LET before == IF k = 1 THEN ph[k].natoms - (CASE ph[k].act = "vacancy" -> -1 [] ph[k].act = "interstitial" -> 1 [] ph[k].act = "dumbbell" -> 1 [] OTHER -> 0)
                  ELSE ph[k-1].natoms IN
    "refused" \in DOMAIN ph[k].expect \/
    ph[k].natoms - before = (CASE ph[k].act = "vacancy" -> -1 [] ph[k].act = "interstitial" -> 1 [] ph[k].act = "dumbbell" -> 1 [] OTHER -> 0)
PEmit == Len(ph) = PDepth => PrintT("@@CASE " \o ToJson([init |-> [v |-> psys.cell.v, o |-> psys.cell.o, pbc |-> psys.pbc], steps |-> ph]))
====
