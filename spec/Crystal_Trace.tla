---- MODULE Crystal_Trace ----
EXTENDS Crystal, IOUtils
Tr == ndJsonDeserialize(IOEnv.TRACE_FILE)
VARIABLE l
TInit == l = 1 /\ ccase = 0 /\ cphase = 0
TNext == l <= Len(Tr) /\ l' = l + 1 /\ UNCHANGED cvars
Check == l <= Len(Tr) =>
           LET w == VerdictCrystal(Tr[l]) IN (w = "ok" \/ PrintT("@@BAD " \o ToJson([l |-> l, clause |-> w])))
Done == (l = Len(Tr) + 1) => PrintT("@@DONE " \o ToString(Len(Tr)))
====
