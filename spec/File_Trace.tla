---- MODULE File_Trace ----
EXTENDS FileFormats, IOUtils
Tr == ndJsonDeserialize(IOEnv.TRACE_FILE)
VARIABLE l
TInit == l = 1 /\ fdummy = 0
TNext == l <= Len(Tr) /\ l' = l + 1 /\ UNCHANGED fvars
Check == l <= Len(Tr) =>
           LET w == VerdictFile(Tr[l]) IN (w = "ok" \/ PrintT("@@BAD " \o ToJson([l |-> l, clause |-> w])))
Done == (l = Len(Tr) + 1) => PrintT("@@DONE " \o ToString(Len(Tr)))
====
